#!/usr/bin/env python3
"""Generates MANIFEST.json from checks.json (kept small and hand-edited)."""
import json
c = json.load(open('/verif/checks.json'))
props = [json.loads(l)['id'] for l in open('/verif/properties.jsonl')]
checks = []
claimed = set()
for k in c['checks']:
    pid = k['property_id']; claimed.add(pid)
    checks.append({
        "property_id": pid,
        "quick_cmd": f"./run.sh {pid} quick",
        "thorough_cmd": f"./run.sh {pid} thorough",
        "evidence_file": f"/verif/evidence/{pid}.json",
        "replay_cmd_template": "./run.sh replay {path}",
        "engine": k['engine'],
        "level_claimed": {"category": k['level'], "text": k['text'], "design_ref": k['design_ref']},
        "level_note": k['note'],
        "technique": k['technique'],
    })
na = [x for x in c.get('not_applicable', []) if x['property_id'] not in claimed]
listed = {x['property_id'] for x in na}
for p in props:
    if p not in claimed and p not in listed:
        na.append({"property_id": p, "reason": "check not built yet in this session (planned in DESIGN.md section 3)"})
m = {
    "version": 1,
    "setup_cmd": "./setup.sh",
    "hooks": {"guard": "verif", "enable": "go build -tags verif (harness module with replace => /repo)",
              "baseline_off_cmd": "cd /repo && GOFLAGS=-mod=mod GOPROXY=off GOSUMDB=off GOTOOLCHAIN=local go test -vet=off -count=1 -timeout 25m ./...",
              "source_commits": c.get('hook_commits', []), "add_only": True},
    "engines": c['engines'],
    "checks": checks,
    "notes": c.get('notes', ''),
    "not_applicable": na,
}
json.dump(m, open('/verif/MANIFEST.json', 'w'), indent=1)
print("claimed", sorted(claimed), "not applicable", [x['property_id'] for x in na])
