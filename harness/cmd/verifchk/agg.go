package main

import (
	"time"

	"verif/internal/bfs"
	"verif/internal/checks/agg"
)

func aggCfg(id, tier string) agg.Config {
	switch id {
	case "C11":
		c := agg.Config{Depth: 5, Ops: []string{
			"gov regcoin acoin acoin", "gov addcoin bcoin bcoin mod", "gov regerc20 ext", "gov regerc20 steal", "gov regerc20 delayed",
			"cc acoin u1 u1 3", "cc acoin u1 u2 1", "cc bcoin u2 u2 3", "cc acoin u1 u1 11", "cc acoin u1 blocked 1", "cc ccoin u1 u1 1",
			"ce mod acoin u1 u1 1", "ce mod bcoin u1 u2 3", "ce mod acoin u1 blocked 1", "ce mod acoin u1 u1 20", "ce mod ccoin u1 u1 1",
			"ce ext v:ext u1 u1 3", "ce ext v:ext u1 u2 11", "ce ext acoin u1 u1 1", "cc v:ext u1 u2 1", "cc v:ext u1 u1 4",
			"ce steal v:steal u1 u1 2", "ce delayed v:delayed u1 u1 2",
			"gov toggle acoin", "gov toggle ext", "gov enable false", "gov enable true", "gov hook false", "reimport",
		}}
		if tier == "thorough" {
			c.Depth = 10
		}
		return c
	case "C12":
		c := agg.Config{Depth: 5, Ops: []string{
			"gov regcoin acoin acoin", "gov regcoin acoin CoinA", "gov regcoin bcoin CoinB", "gov regcoin bcoin CoinBagain", "gov regcoin ccoin ccoin",
			"gov addcoin bcoin bcoin mod", "gov addcoin bcoin CoinB mod", "gov addcoin ccoin CoinC mod", "gov addcoin bcoin CoinB2 mod2", "gov addcoin acoin acoin ext",
			"gov regerc20 ext", "gov regerc20 ext2", "gov regerc20 mod", "gov regerc20 eoa",
			"gov toggle acoin", "gov toggle ext", "gov toggle bcoin",
			"gov update ext ext2", "gov update ext mod", "gov update mod ext2", "gov update mod mod2", "gov update ext2 ext",
			"destruct ext", "destruct mod", "reimport",
			"cc acoin u1 u1 3", "cc bcoin u1 u1 2", "ce mod bcoin u1 u1 1", "ce mod acoin u1 u1 1", "ce ext v:ext u1 u1 2", "cc v:ext u1 u1 1",
		}}
		if tier == "thorough" {
			c.Depth = 8
		}
		return c
	}
	panic(id)
}

func registerAgg(id, rule string, minClasses int) {
	registerBFS(bfsCheck{
		id: id,
		spec: func(tier string) bfs.Spec {
			cfg := aggCfg(id, tier)
			d := 170 * time.Second
			if tier == "thorough" {
				d = 25 * time.Minute
			}
			return bfs.Spec{Name: id, New: func() bfs.System { return agg.New(cfg) }, MaxDepth: cfg.Depth, Deadline: d}
		},
		rule: rule,
		assume: []string{"cosmos-sdk bank and the EVM are trusted", "the module state may at any point go through its own genesis export and import (operation reimport)", "self-destruction is modelled as the repository's own tests do (the contract account is deleted)", "amounts from {1,2,3,balance+1}; two users, three coins, two honest external tokens and the repository's two malicious tokens"},
		bounds: func(tier string) map[string]interface{} {
			c := aggCfg(id, tier)
			return map[string]interface{}{"depth": c.Depth, "operations": c.Ops}
		},
		minClasses: minClasses,
		propFilter: id,
	})
}

func init() {
	registerAgg("C11", "explicit-state BFS on one real chain: conversions are real transactions (both directions, module-owned pair with two denominations, honest external token, the repository's two malicious tokens, amounts above balance, blocked receiver, unregistered / foreign denominations), interleaved with registrations, toggles and the global switch through the real handlers; after every tx the complete delta of bank balances, ERC-20 balances and supplies is compared with the statement's exact movement, failed txs must leave bank/evm/aggregate stores unchanged, and the backing inequalities are evaluated in every state", 6)
	registerAgg("C12", "explicit-state BFS on one real chain over governance actions through the real proposal handler (register-coin with Name = / != Base and repeated bases, add-coin to first/second module pair and to foreign contracts, register-ERC20 incl. a module-owned contract and an EOA, toggles, update-ERC20-address to every deployed contract incl. already registered ones, contract self-destruction) interleaved with conversions; after every state the three raw store prefixes are iterated and every pair / contract entry / denomination entry is cross-checked", 6)
}
