package main

import (
	"fmt"

	"verif/internal/checks/relay"

	"verif/internal/checks/c06"
	"verif/internal/ev"
)

func init() {
	checks["C06"] = check{run: func(tier string) int {
		r := ev.Start("C06", tier, "exploration")
		e1, n1 := c06.Part1(r, tier)
		r.Count("part1_cases", e1)
		r.Count("part1_accepted", n1)
		if n1 < 10 {
			fmt.Println("HARNESS-ERROR: C06 part 1 vacuous: almost nothing accepted")
			return 2
		}
		e2, n2 := c06.Part2(r, tier)
		r.Count("part2_calls", e2)
		r.Count("part2_methods_with_positive_control", n2)
		if n2 < 5 {
			fmt.Println("HARNESS-ERROR: C06 part 2 vacuous: fewer than 5 privileged methods have a working positive control")
			return 2
		}
		// part 3: scripted relay histories in which an ordinary contract emits a look-alike PacketSent log (the module must
		// take sends only from the packet contract's own logs) and TSS-secured messages carry foreign signers
		steps, vs := relay.ScriptedViolations("C06")
		for _, v := range vs {
			r.Violation(v.Sig, v.Detail, map[string]interface{}{"engine": "bfs", "check": "C04", "tier": "script", "history": v.History})
		}
		r.Count("part3_scripted_relay_steps", int64(steps))
		// part 4: the registry itself — enumeration and authorisation after export/import agree with what was registered
		e4, n4 := c06.Registry(r)
		r.Count("part4_registry_evaluations", e4)
		e1 += e4
		n1 += n4
		e1 += e2 + int64(steps)
		n1 += n2
		return r.Finish(ev.Coverage{Evaluations: e1, Distinct: n1, Exhaustive: true,
			Rule: "part 1: every relayer registry over {r1,r2,TSS account} x counterparties {B,C} (all chain lists incl. both orders, plus re-registration histories) x signer {r1,r2,TSS account,outsider} x message {update, receive of an ordinary transfer, receive of a packet whose callback reverts outright (error acknowledgement written by the message server), ack} x chain {B,C} x client kind of B {tendermint, TSS, TSS rotated to another account by a governance upgrade}; each message otherwise valid (real headers, proofs), delivered through DeliverTx on a fork of one prepared three-chain world; oracle = predicate of the statement, store dumps unchanged on rejection, ack.Relayer = registered counterparty address. distinct_nontrivial = number of accepted messages + privileged methods with a working positive control. part 2: every non-view method of the packet, endpoint and execute contracts read from the embedded ABIs at run time (except crossChainCall/addPacketFee) with well-formed arguments x caller path {EOA transaction, hand-assembled forwarder contract, execute contract called directly by a user, call data of a received cross-chain packet}; oracle: call fails and store dumps unchanged; positive control: the same call from the chain's own module/contract addresses succeeds. part 4: every assignment of six chain lists to three relayers: the registry enumeration (keeper and gRPC query) lists each relayer with exactly its own chains and addresses, and after the client module's export and import every relayer is authorised for exactly its chains. part 3: scripted relay histories with a look-alike PacketSent log emitted by an ordinary contract between real sends (no xibc record or counter may change)",
			Bounds: map[string]interface{}{"tier": tier},
			Assumptions: []string{"SDK signature verification trusted", "registry has no delete: 'not registered' is modelled as registered for an unused chain only"}})
	}}
}
