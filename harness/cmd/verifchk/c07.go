package main

import (
	"fmt"
	"time"

	"verif/internal/bfs"
	"verif/internal/checks/c07"
	"verif/internal/ev"
)

func c07Bounds(tier string) (c07.HistBounds, c07.HistBounds) {
	if tier == "thorough" {
		return c07.HistBounds{Depth: 8}, c07.HistBounds{Depth: 8, Disjoint: true}
	}
	return c07.HistBounds{Depth: 5}, c07.HistBounds{Depth: 5, Disjoint: true}
}

func init() {
	checks["C07"] = check{run: func(tier string) int {
		r := ev.Start("C07", tier, "model_checking")
		evals, nontriv := c07.Single(r, tier)
		r.Count("single_step_cases", evals)
		r.Count("single_step_partial_signer_subsets", nontriv)
		var states, trans, traces int64
		exhaustive := true
		b1, b2 := c07Bounds(tier)
		for i, b := range []c07.HistBounds{b1, b2} {
			b := b
			spec := bfs.Spec{Name: "C07", New: func() bfs.System { return c07.NewHist(b) }, MaxDepth: b.Depth + 1, InProcess: true, Workers: 8, Deadline: 10 * time.Minute}
			res, err := bfs.Run(spec)
			if err != nil {
				fmt.Println("HARNESS-ERROR: C07:", err)
				return 2
			}
			states += res.States
			trans += res.Transitions
			traces += res.Traces
			if !res.Exhaustive {
				exhaustive = false
				r.Incomplete(res.Incomplete)
			}
			for k, v := range res.Classes {
				r.Outcomes[fmt.Sprintf("hist%d %s", i, k)] = v
			}
			for _, s := range res.Samples {
				r.Sample(s)
			}
			for _, f := range res.Violations {
				if !replayHas(spec, f.History, f.Sig) {
					fmt.Println("HARNESS-ERROR: C07 violation not reproducible", f.Sig, f.History)
					return 2
				}
				r.Violation(f.Sig, f.Detail, map[string]interface{}{"engine": "bfs", "check": "C07", "tier": tier, "variant": i, "history": f.History})
			}
		}
		return r.Finish(ev.Coverage{States: states, Transitions: trans, Traces: traces, Evaluations: evals, Distinct: nontriv,
			Rule:       "(0) all comparison methods of the height type against the lexicographic (revision, height) order on a grid where the two coordinates disagree; (1) exhaustive single-step enumeration: all validator sets over n keys with powers {1,2,3} as trusted-next set x header set {same, other powers, one replaced, disjoint} x ALL signer subsets x trust level {1/3,1/2,2/3} x {adjacent, skipping}, plus both sides of every clock boundary and single-field mutations; oracle = integer-arithmetic predicate from the statement, store compared with a reference map. (2) explicit-state BFS over update orders (forward, skipping, back-filling over a validator-set change, overlapping and disjoint), clock advances to both sides of expiry, and proof verification with real ICS-23 proofs from a real chain with delay {0,10s}; canonical state = stored heights with delay/expiry buckets, latest, clock bucket",
			Exhaustive: exhaustive,
			Bounds:     map[string]interface{}{"validators": map[string]int{"quick": 3, "thorough": 4}[tier], "powers": []int{1, 2, 3}, "history_depth": b1.Depth, "counterparty_headers": 5},
			Assumptions: []string{"ed25519 and tendermint's commit verification are trusted", "trust levels above 2/3 excluded (adjacent headers are checked against 2/3 only)", "exact-equality instants of the trusting period / clock drift are don't-care", "pruning of the oldest expired consensus state is allowed but not required", "rejection of headers that satisfy the statement is informational (liveness)"}})
	}}
}
