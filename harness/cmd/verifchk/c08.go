package main

import (
	"fmt"

	"verif/internal/checks/c08"
	"verif/internal/ev"
)

func init() {
	checks["C08"] = check{run: func(tier string) int {
		r := ev.Start("C08", tier, "exploration")
		evals, nontriv := c08.Run(r, tier)
		if nontriv < 100 {
			fmt.Println("HARNESS-ERROR: C08 vacuous")
			return 2
		}
		return r.Finish(ev.Coverage{Evaluations: evals, Distinct: nontriv, Exhaustive: true,
			Rule: "exhaustive product: storage configurations of the configured contract (slots commit#1/ack#1/commit#2/unrelated x values incl. hashes with 1 and 2 leading zero bytes) x {with/without the contract account, with/without a look-alike contract holding the same slots} x two heights with different roots x (head, confirmation delay) on both sides of the bound x every query (kind, sequence in {1, the first sequence whose slot hash starts with a zero byte}, value, height incl. unstored and above head) x 24 proof mutations (incl. a relayer-built storage trie whose root is announced in storage_hash next to the genuine account proof), for the ETH and the BSC client; oracle recomputed from the generator's own tries (address, account fields, slot, value, node sets of the true paths). distinct_nontrivial counts distinct (world, client, setting, query, mutation) cases that are mutated or must be accepted",
			Bounds: map[string]interface{}{"tier": tier},
			Assumptions: []string{"keccak/RLP and go-ethereum's trie builder are trusted (the generator builds the tries with it)", "proofs padded with unused extra nodes and proofs with several storage entries are don't-care", "slot derivation keccak(path||208) is the generator's own definition"}})
	}}
}
