package main

import (
	"fmt"
	"time"

	"verif/internal/bfs"
	"verif/internal/checks/c09"
	"verif/internal/ev"
)

func c09Configs(tier string) []c09.Bounds {
	var out []c09.Bounds
	ns, es, depth := []int{1, 2, 3}, []uint64{3, 4}, 9
	if tier == "thorough" {
		ns, es, depth = []int{1, 2, 3, 4}, []uint64{3, 4, 6}, 14
	}
	for _, n := range ns {
		for _, e := range es {
			out = append(out, c09.Bounds{N: n, Epoch: e, Depth: depth})
		}
	}
	// large validator sets with a big shrink (the recents window must survive the set switch)
	out = append(out, c09.Bounds{N: 9, Epoch: 6, Depth: 8, U: 10, Big: true, GenesisShrink: 3}, c09.Bounds{N: 8, Epoch: 5, Depth: 8, U: 10, Big: true, GenesisShrink: 2},
		c09.Bounds{N: 9, Epoch: 6, Depth: 7, U: 10, Big: true},
		// the start header announces a rotated set (validator 0 out, an outsider in): installed by create and by the real upgrade
		c09.Bounds{N: 3, Epoch: 4, Depth: 7, Rotate: true}, c09.Bounds{N: 3, Epoch: 4, Depth: 7, Rotate: true, ViaUpgrade: true}, c09.Bounds{N: 3, Epoch: 4, Depth: 6, Reanchored: true}, c09.Bounds{N: 2, Epoch: 3, Depth: 7, Rotate: true, ViaUpgrade: true},
		c09.Bounds{N: 8, Epoch: 5, Depth: 7, U: 10, Big: true, GenesisShrink: 2, ViaUpgrade: true},
		// chains crossing 9->10 and 99->100 (store keys carry decimal heights: their order changes with the digit count)
		c09.Bounds{N: 3, Epoch: 3, Depth: 7, Start: 96}, c09.Bounds{N: 4, Epoch: 4, Depth: 8, Start: 96}, c09.Bounds{N: 3, Epoch: 3, Depth: 6, Start: 6}, c09.Bounds{N: 5, Epoch: 5, Depth: 8, Start: 95, U: 6})
	return out
}

func init() {
	checks["C09"] = check{run: func(tier string) int {
		r := ev.Start("C09", tier, "model_checking")
		var states, trans, traces int64
		exhaustive := true
		for _, b := range c09Configs(tier) {
			b := b
			spec := bfs.Spec{Name: "C09", New: func() bfs.System { return c09.New(b) }, MaxDepth: b.Depth, InProcess: true, Workers: 12, Deadline: 4 * time.Minute}
			if tier == "thorough" {
				spec.Deadline = 12 * time.Minute
			}
			res, err := bfs.Run(spec)
			if err != nil {
				fmt.Println("HARNESS-ERROR: C09:", err)
				return 2
			}
			states += res.States
			trans += res.Transitions
			traces += res.Traces
			r.Count(fmt.Sprintf("states_N%d_E%d_shrink%d_rotate%v_upgrade%v", b.N, b.Epoch, b.GenesisShrink, b.Rotate, b.ViaUpgrade)+fmt.Sprintf("_start%d_reanchored%v", b.Start, b.Reanchored), res.States)
			if !res.Exhaustive {
				exhaustive = false
				r.Incomplete(res.Incomplete)
			}
			for k, v := range res.Classes {
				r.Outcomes[k] += v
			}
			if len(res.Samples) > 0 {
				r.Sample(map[string]interface{}{"N": b.N, "epoch": b.Epoch, "history": res.Samples[len(res.Samples)-1]})
			}
			for _, f := range res.Violations {
				if !replayHas(spec, f.History, f.Sig) {
					fmt.Println("HARNESS-ERROR: C09 violation not reproducible", f.Sig, f.History)
					return 2
				}
				r.Violation(f.Sig, f.Detail, map[string]interface{}{"engine": "bfs", "check": "C09", "tier": tier, "N": b.N, "epoch": b.Epoch, "history": f.History})
			}
		}
		if len(r.Outcomes) < 8 {
			fmt.Println("HARNESS-ERROR: C09 vacuous exploration")
			return 2
		}
		return r.Finish(ev.Coverage{States: states, Transitions: trans, Traces: traces,
			Rule:       "explicit-state BFS on the real BSC client (bare client keeper of a real app): from an epoch genesis, at every state every candidate next header (5 keys as sealer incl. outsiders x difficulty {2,1} x announced list {same,+1,-1,disjoint} on epoch heights) and 14 single-field mutations of a valid candidate; reference snapshot {head, validators, sealer history, pending list} from the statement; canonical state = (height mod epoch*60, validators, pending, last two sealers)",
			Exhaustive: exhaustive,
			Bounds:     map[string]interface{}{"configs": c09Configs(tier)},
			Assumptions: []string{"secp256k1 recovery and keccak trusted; the Parlia seal hash is re-implemented by the generator as ground truth", "validator sets of size <= 5 (last-two-sealers window suffices for floor(N/2) <= 2)", "announced lists change the set size by at most one per epoch (large jumps 1->4 are outside the alphabet)", "rejection of eligible headers is informational (liveness)", "header time is not constrained by the statement"}})
	}}
}
