package main

import (
	"fmt"
	"time"

	"verif/internal/bfs"
	"verif/internal/checks/c10"
	"verif/internal/ev"
)

func init() {
	checks["C10"] = check{run: func(tier string) int {
		r := ev.Start("C10", tier, "model_checking")
		var states, trans, traces int64
		exhaustive := true
		type cfg struct {
			uni   []c10.Node
			tag   string
			depth int
		}
		cfgs := []cfg{{c10.Universe(tier), "", 10}, {c10.Universe(tier), "/via-upgrade", 8}, {c10.Universe(tier), "/tiny-fee", 7}, {c10.Universe(tier), "/at-target", 6}, {c10.Universe(tier), "/digits", 8}, {c10.Universe(tier), "/upgrade-to-child", 8}, {c10.Universe(tier), "/expiry", 4}, {c10.Universe(tier), "/ahead", 7}}
		if tier == "thorough" {
			cfgs[0].depth, cfgs[1].depth = 12, 12
			cfgs = append(cfgs, cfg{c10.EqualRootUniverse(), "/equal-state-roots", 9})
		}
		for _, c := range cfgs {
			c := c
			spec := bfs.Spec{Name: "C10", New: func() bfs.System { return c10.New(c.uni, c.tag) }, MaxDepth: c.depth, InProcess: true, Workers: 12, Deadline: 150 * time.Second}
			if tier == "thorough" {
				spec.Deadline = 15 * time.Minute
			}
			res, err := bfs.Run(spec)
			if err != nil {
				fmt.Println("HARNESS-ERROR: C10:", err)
				return 2
			}
			states += res.States
			trans += res.Transitions
			traces += res.Traces
			r.Count("states"+c.tag, res.States)
			r.Count("max_depth"+c.tag, int64(res.MaxDepth))
			if !res.Exhaustive {
				exhaustive = false
				r.Incomplete(res.Incomplete)
			}
			for k, v := range res.Classes {
				r.Outcomes[k+c.tag] += v
			}
			for _, s := range res.Samples {
				r.Sample(s)
			}
			for _, f := range res.Violations {
				if !replayHas(spec, f.History, f.Sig) {
					fmt.Println("HARNESS-ERROR: C10 violation not reproducible", f.Sig, f.History)
					return 2
				}
				r.Violation(f.Sig, f.Detail, map[string]interface{}{"engine": "bfs", "check": "C10", "tier": tier, "universe": c.tag, "history": f.History})
			}
		}
		n, err := c10.PoW(r, tier)
		if err != nil {
			fmt.Println("HARNESS-ERROR: C10 pow:", err)
			return 2
		}
		n += c10.EpochBoundary(r, tier)
		r.Count("pow_cases", n)
		return r.Finish(ev.Coverage{States: states, Transitions: trans, Traces: traces, Evaluations: n, Distinct: n,
			Rule:       "explicit-state BFS (client installed by creation, and in a second search by a real governance upgrade of an older client) over submission orders of a header tree (two competing branches from genesis with sub-forks, every header of the universe submitted at every state incl. orphans and re-submissions) on the real ETH client (chain id 4), 13 single-field rule mutations of a child of the head at every state; the searches are repeated with header gas profiles above target with a base fee of a few wei (the increase rounds to zero and is floored at 1) and exactly at target; oracle: accepted iff parent accepted (both directions: the statement demands that valid children of stored headers are accepted), head = last accepted, consensus states on the head's ancestry = ancestors' roots; plus difficulty/PoW mutations on recorded main-net headers with real ethash; plus a mined proof-of-work tree across the ethash epoch boundary at height 30000 (two branches) submitted in every parent-before-child order (thorough: also with one premature child) with seal mutations of the first header of the new epoch",
			Exhaustive: exhaustive,
			Bounds:     map[string]interface{}{"universe_headers": len(c10.Universe(tier)), "max_tree_depth": map[string]int{"quick": 3, "thorough": 4}[tier], "bfs_depth": cfgs[0].depth},
			Assumptions: []string{"keccak/RLP/ethash trusted; go-ethereum's misc.CalcBaseFee is the generator's ground truth for base fees", "the trusting period is reached only in the expiry variant (genesis leaves it after the second operation; pruning of the oldest state)", "sibling headers with equal state roots explored only in the thorough tier, reported under their own signature"}})
	}}
}
