package main

import (
	"fmt"

	"verif/internal/checks/c13"
	"verif/internal/checks/c19"
	"verif/internal/checks/relay"
	"verif/internal/ev"
)

func init() {
	checks["C13"] = check{run: func(tier string) int {
		r := ev.Start("C13", tier, "exploration")
		evals, nontriv := c13.Run(r, tier)
		// the whole application: three-chain relay histories, then a chain is restarted from its exported genesis (export of
		// every module, InitChain of a fresh application): xibc records, contract state and balances must be what they were
		steps, vs := relay.ScriptedViolations("C13")
		for _, v := range vs {
			r.Violation(v.Sig, v.Detail, map[string]interface{}{"engine": "relay-script", "check": "C13", "history": v.History})
		}
		r.Count("scripted_relay_steps_with_restart_from_exported_genesis", int64(steps))
		evals += c19.ManyRecords(r, "C13")
		evals += int64(steps)
		if evals < 8 {
			fmt.Println("HARNESS-ERROR: C13 vacuous")
			return 2
		}
		return r.Finish(ev.Coverage{Evaluations: evals, Distinct: nontriv, Exhaustive: true,
			Rule: "differential round trip (export -> own validation -> JSON -> InitGenesis on a fresh app -> raw store comparison -> second export) over states built through the real keepers: a tendermint client updated by real signed headers to every height with one non-zero byte (all 255 values x byte positions, quick: two low positions + separator-like bytes everywhere), tendermint clients for every such revision number, BSC and ETH clients created at every such height, TSS clients with relayers, one chain whose BSC, ETH and TSS clients carry update histories (validator-set switch with recent signers and pending validators, fork with branch switch and orphan, TSS updates), every prefix of a scripted three-chain relay history on all three chains (each holds commitments, receipts and acknowledgements on two paths), aggregate registry states, and every reward list of a small alphabet accepted by the parameter validators (unsorted, zero amounts, three denominations, 2^128-1) set through the real parameter-change handler with vesting on and off. evaluations = round trips; distinct_nontrivial = distinct clients/heights/states inside them",
			Bounds: map[string]interface{}{"tier": tier},
			Assumptions: []string{"module-level round trip (the statement's three modules); EVM/bank state is imported by their own modules", "heights >= 2^63 are not reachable for tendermint headers (int64) and are only covered for BSC/ETH clients"}})
	}}
}
