package main

import (
	"fmt"
	"os"
	"path/filepath"

	"verif/internal/checks/c14"
	"verif/internal/ev"
)

func init() {
	checks["C14"] = check{run: func(tier string) int {
		r := ev.Start("C14", tier, "model_checking")
		self, err := os.Executable()
		if err != nil {
			fmt.Println("HARNESS-ERROR:", err)
			return 2
		}
		scratch, err := os.MkdirTemp("", "verif-c14-")
		if err != nil {
			fmt.Println("HARNESS-ERROR:", err)
			return 2
		}
		defer os.RemoveAll(scratch)
		states, trans, err := c14.Run(r, tier, self, filepath.Join(filepath.Dir(filepath.Dir(self)), "harness"), scratch)
		if err != nil {
			fmt.Println("HARNESS-ERROR: C14:", err)
			return 2
		}
		return r.Finish(ev.Coverage{States: states, Transitions: trans, Traces: states,
			Rule: "differential replay: ten scenarios (a relay history continued once by the node that kept running and once by a node restarted in the middle — the application re-opened on a copy of its database —, which must give identical traces; the client histories and the proof-of-work update replayed twice inside one process on fresh chains — a node that has been running and a freshly restarted one must agree, nothing may be left behind in package-level variables or caches; the registered software-upgrade handler v0.2 executing at its planned height between relay traffic; full three-chain relay history with every packet kind and relay form; aggregate registrations/conversions/toggles/updates/self-destruct; vesting blocks with parameter changes; staking and governance through the system contracts incl. nested and look-alike callers; BSC header chain across an epoch with a validator-set switch + ETH fork on chain id 4 + TSS updates through MsgUpdateClient; a main-net ETH update with real ethash; an exhaustive explicit-state search of the real BSC client — every candidate next header at every reachable state for five validator-set configurations, verdict of every transition recorded) are each executed in separate processes in every environment of the lattice GOMAXPROCS {1,4,16} x TMPDIR {default, other directory, non-existent} x map-iteration policy {native, ascending, descending, rotated} x wall clock {real, 1970, +30 years} + local files {every process in its own empty working directory and HOME; the reference run repeated as a node killed before its clean-up (unlink/rmdir made no-ops by strace injection), every file it created damaged behind its first 8 bytes, and the scenario run again in that directory} (thorough: full product; quick: every value of every dimension plus the far corner); map iteration order and the wall clock are made explicit choices by a generated overlay that rewrites every range over a map and every time.Now()/time.Since in teleport's own packages (sites listed in notes); the per-transaction (code, gas, data, log, events) and per-block (app hash) traces must be identical. states = (scenario, environment) executions, transitions = trace lines compared",
			Exhaustive: true,
			Bounds:     map[string]interface{}{"scenarios": c14.Scenarios, "tier": tier},
			Assumptions: []string{"dependencies (cosmos-sdk, ethermint, go-ethereum, tendermint) are out of scope: their map ranges are not rewritten", "goroutine interleavings are varied only through GOMAXPROCS (teleport's state machine starts goroutines only inside the ethash verifier)", "the three iteration policies are representatives of the n! orders of each map"}})
	}}
}
