package main

import (
	"fmt"

	"verif/internal/checks/c15"
	"verif/internal/ev"
)

func init() {
	checks["C15"] = check{run: func(tier string) int {
		r := ev.Start("C15", tier, "exploration")
		evals, nontriv := c15.Run(r, tier)
		if nontriv < 50 {
			fmt.Println("HARNESS-ERROR: C15 vacuous: fewer than 50 accepted contents/values")
			return 2
		}
		return r.Finish(ev.Coverage{Evaluations: evals, Distinct: nontriv, Exhaustive: true,
			Rule: "(A) Create/Upgrade/Toggle-client proposals for all four client types from a well-formed default with per-field degenerate alphabets (0, max, empty, nil, one-past-size blooms/nonces/hashes, short extra data, height 0, epoch 0, zero periods, nil/foreign consensus states, bad names), all combinations with <=1 (quick) / <=2 (thorough) deviations, plus relayer registrations; (B) the 8 aggregate proposals over contract-address and metadata alphabets; each content is filtered exactly as submission does (ValidateBasic + the gov keeper's dry run, under recovery) in every module state and the survivors are executed the way gov.EndBlocker does (cache context, no recovery) in every module state; (C) every parameter value of rvesting/aggregate accepted by the parameter validators, executed through the gov router inside a real block and followed by three real blocks, over several vesting-pool balances; (D) rvesting/aggregate genesis states that pass the module's validation are initialised. distinct_nontrivial = contents/values that were accepted at submission",
			Bounds: map[string]interface{}{"max_deviations": map[string]int{"quick": 1, "thorough": 2}[tier]},
			Assumptions: []string{"cosmos-sdk gov keeper v0.45 dry-runs the handler at submission, so 'accepted at submission' means ValidateBasic and one successful handler run in the submission state", "xibc genesis initialisation is exercised by C13's round trips"}})
	}}
}
