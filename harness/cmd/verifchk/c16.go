package main

import (
	"fmt"

	"verif/internal/checks/c16"
	"verif/internal/ev"
)

func init() {
	checks["C16"] = check{run: func(tier string) int {
		r := ev.Start("C16", tier, "model_checking")
		evals, nontriv := c16.Run(r, tier)
		if nontriv < 4 {
			fmt.Println("HARNESS-ERROR: C16 vacuous: no successful voucher receive observed")
			return 2
		}
		return r.Finish(ev.Coverage{States: 4, Transitions: evals, Traces: evals, Evaluations: evals, Distinct: nontriv, Exhaustive: true,
			Rule: "every ICS-20 packet of the alphabet (registered / unregistered foreign coin / returning native coin / the registered coin arriving over two hops, whose voucher is a different unregistered one while the receiver already holds direct vouchers; x amount {1,3,0,non-numeric,>2^256,-1,empty} x receiver {valid, malformed, blocked module account, zero address}) and every pair of packets in sequence, in five registry states {no pair, pair enabled, voucher added as the second denomination of a pair whose first denomination the receiver also holds, pair disabled, module disabled}, is given to the real IBCMiddleware.OnRecvPacket obtained from the application's IBC router and, on a sibling branch of the same state, to the wrapped transfer module alone; oracle: identical acknowledgement (success flag and bytes; a nil return means nothing is committed under the IBC core rule), and the receiver ends with either exactly the amount as tokens with the vouchers escrowed, or exactly the vouchers and nothing else. states = registry states, transitions = packets delivered",
			Bounds: map[string]interface{}{"tier": tier},
			Assumptions: []string{"ibc-go core and the transfer application are trusted; the IBC core rule 'a nil acknowledgement is not written' is taken from ibc-go v3", "the packet is handed to the callback directly (no channel handshake), as the core does after its own checks"}})
	}}
}
