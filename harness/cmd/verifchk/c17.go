package main

import (
	"verif/internal/ev"
	"verif/internal/checks/relay"
	"time"

	"verif/internal/bfs"
	"verif/internal/checks/c17"
)

func c17Cfg(tier string) c17.Config {
	c := c17.Config{Depth: 4, Ops: []string{
		"eoa u2 delegate v0 5", "eoa u2 delegate v1 3", "eoa u2 delegate vunknown 1", "eoa u2 delegate not-an-address 1", "eoa u2 delegate v0 0", "eoa u2 delegate v0 999999999999999999999",
		"eoa u2 undelegate v0 2", "eoa u2 undelegate v0 999", "eoa u2 redelegate v0 v1 1", "eoa u2 redelegate v0 v0 1", "eoa u2 withdraw v0", "eoa u2 withdraw v1",
		"fwd u2 delegate v0 7", "fwd u2 delegate v0 5000", "fwd u2 undelegate v0 1", "fwd u2 delegate vunknown 1",
		"fwd2 u2 delegate v0 2 | delegate v1 3", "fwd2 u2 delegate v0 2 | delegate v0 2", "fwd2 u2 delegate v0 2 | delegate vunknown 1", "fwd2 u2 delegate v0 2 | undelegate v0 1", "fwd2 u2 delegate v0 5000 | delegate v1 1",
		// amounts beyond 2^64 base units (18.4 whole coins): delegate 30, undelegate 20, redelegate 19
		"eoa u2 delegate v0 30000000000000000000", "eoa u2 undelegate v0 20000000000000000000", "eoa u2 redelegate v0 v1 19000000000000000000",
		"fwd3 u2 delegate v0 2 | vote 1 1", "fwd3 u2 vote 1 3 | delegate v1 1", "fwd3 u2 delegate v0 2 | vote 7 1", "fwd3 u2 wvote 1 1:60,3:40 | undelegate v0 1",
		"fake u2 delegate v0 5", "fake u2 undelegate v0 1", "fake u2 vote 1 1",
		"eoa u2 vote 1 1", "eoa u2 vote 1 3", "eoa u2 vote 1 9", "eoa u2 vote 7 1", "eoa u2 wvote 1 1:60,3:40", "eoa u2 wvote 1 1:60,3:30", "eoa u2 wvote 1 1:100", "eoa u2 wvote 1 1:50", "fwd u2 vote 1 2",
		"advance", "slash",
	}}
	if tier == "thorough" {
		c.Depth = 8
	}
	return c
}

func init() {
	registerBFS(bfsCheck{
		id: "C17",
		spec: func(tier string) bfs.Spec {
			cfg := c17Cfg(tier)
			d := 170 * time.Second
			if tier == "thorough" {
				d = 25 * time.Minute
			}
			return bfs.Spec{Name: "C17", New: func() bfs.System { return c17.New(cfg) }, MaxDepth: cfg.Depth, Deadline: d}
		},
		rule: "explicit-state BFS on one real chain with two validators: sequences of real EVM transactions calling the Staking / Gov system contracts directly (EOA), through a hand-assembled forwarder contract that first writes its own storage (nested call, delegator = contract), through forwarders performing two calls in one transaction (same contract twice; a staking call and a governance call in either order, so that each hook sees a foreign event before or after its own), and through a look-alike contract emitting byte-identical events from a foreign address; arguments valid / unknown and malformed validator / amount 0 / above balance / unknown proposal / invalid option / weights not summing to 1; plus advancing past the voting period (deposit burn or refund) and a slash of a validator with unbonding entries (burns from the bonded and the not-bonded pool). Reference model of delegations and votes per actor; failures must leave balances, delegations, votes and the forwarder's storage unchanged; total supply constant after every step",
		assume: []string{"cosmos-sdk staking/gov/distribution are trusted; 1:1 share rate (no slashing in the horizon)", "the packet-call-data path into the staking contract is exercised by a scripted relay history (shared with C03's hookfail kind)"},
		bounds: func(tier string) map[string]interface{} {
			c := c17Cfg(tier)
			return map[string]interface{}{"depth": c.Depth, "operations": c.Ops}
		},
		minClasses: 6,
		// the remaining call path of the statement: a staking call carried as call data of a received cross-chain packet
		extra: func(r *ev.Run, tier string) (int64, int64) {
			steps, vs := relay.ScriptedViolations("C17")
			for _, v := range vs {
				r.Violation(v.Sig, v.Detail, map[string]interface{}{"engine": "bfs", "check": "C03", "tier": "script", "history": v.History})
			}
			r.Count("scripted_relay_steps", int64(steps))
			return int64(steps), int64(steps)
		},
	})
}
