package main

import (
	"time"

	"verif/internal/bfs"
	"verif/internal/checks/c18"
)

func init() {
	registerBFS(bfsCheck{
		id: "C18",
		spec: func(tier string) bfs.Spec {
			d := 8
			if tier == "thorough" {
				d = 13
			}
			return bfs.Spec{Name: "C18", New: func() bfs.System { return c18.New(c18.Bounds{Depth: d}) }, MaxDepth: d, InProcess: true, Workers: 8, Deadline: 10 * time.Minute}
		},
		rule: "explicit-state BFS over lifecycle sequences on the real client keeper: create / create with a foreign consensus state / create under ten malformed names (too short, empty, too long, separator, inner blank, blank/newline/tab padding of the tracked and of a fresh name) / upgrade / toggle for all four client types (hence all ordered type pairs), BSC upgrade off an epoch height, update by the authorised account and by an unregistered one, and the local clock passing the delay period (so that an install at an already tracked height must restart the delay); proposals run through the real proposal handler on a cache context as gov does, updates through the real message server; after every successful install: stored state = proposal, status active, every entry that a fresh creation of the same proposal writes (processed time and height, iteration keys, header and root indices, signer and pending-validator records) is present with the same value, a genuine proof at the installed height (real ICS-23 proof / real trie proof / TSS signer) is refused before the delay and honoured after it, and a valid header from the authorised account is accepted; failures must leave the client store untouched",
		assume: []string{"proof systems themselves are C07/C08's subject; here one genuine proof per type probes initialisation", "the fixture holds headers for two installs and two updates per type"},
		bounds: func(tier string) map[string]interface{} {
			return map[string]interface{}{"depth": map[string]int{"quick": 8, "thorough": 13}[tier], "client_types": 4}
		},
		minClasses: 6,
	})
}
