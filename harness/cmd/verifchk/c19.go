package main

import (
	"verif/internal/checks/c19"
	"verif/internal/checks/relay"
	"verif/internal/ev"
	"verif/internal/world"
)

func init() {
	checks["C19"] = check{run: func(tier string) int {
		r := ev.Start("C19", tier, "exploration")
		// packet bytes emitted by the real packet contract
		var emitted [][]byte
		{
			s := relay.New(relay.Config{Chains: 2, MaxSends: 8})
			for _, op := range []string{"send A B erc20 3", "send B A native 1", "send A B erc20+callok 1", "send A B erc20+agentbad 1", "send A B feeonly1 1", "send B A erc20 3"} {
				s.Run(op)
			}
			for _, n := range []string{relay.A, relay.B} {
				_ = n
			}
			emitted = s.EmittedPackets()
			_ = world.StartTime
		}
		e1, n1 := c19.Encoding(r, emitted)
		e2, n2 := c19.Keys(r, tier)
		return r.Finish(ev.Coverage{Evaluations: e1 + e2, Distinct: n1 + n2, Exhaustive: true,
			Rule: "encoding: all values of Packet/Acknowledgement/TransferData/CallData/Result with at most two fields deviating from a default over per-field alphabets (strings incl. multi-byte UTF-8, quotes, control and HTML characters, U+2028, 31/32/33-byte lengths; byte strings incl. nil/empty/0x00/31/32/33 bytes; uint64 incl. 2^53+-1, 2^63, 2^64-1): decode(encode(v)) = v (nil = empty bytes), re-encoding canonical, distinct values have distinct commitments, packet bytes emitted by the real contract re-encode identically. keys: all valid 3-character chain names over the 11-symbol class alphabet plus 64-character names x sequences {1,9,10,47,2^64-1}: injectivity of every key constructor, write through the real keeper setters and read back through the real iterators; all heights / revision numbers with one non-zero byte through every client's own iterators and the keeper's",
			Bounds: map[string]interface{}{"tier": tier},
			Assumptions: []string{"sha256 collision resistance (injectivity is checked on encodings)", "strings are valid UTF-8 (the statement's domain)"}})
	}}
}
