package main

import (
	"time"

	"verif/internal/bfs"
	"verif/internal/checks/c20"
)

func init() {
	registerBFS(bfsCheck{
		id: "C20",
		spec: func(tier string) bfs.Spec {
			b := c20.TierBounds(tier)
			d := 150 * time.Second
			if tier == "thorough" {
				d = 20 * time.Minute
			}
			return bfs.Spec{Name: "C20", New: func() bfs.System { return c20.New(b) }, MaxDepth: b.Depth + 1, Deadline: d}
		},
		divergenceViolates: true,
		rule: "explicit-state BFS over the real app: state=(vesting params, pool balance); every op is one real ABCI block, optionally with a parameter change through the params proposal handler; states deduplicated on (enable flag, reward list verbatim, pool balances)",
		assume: []string{"cosmos-sdk bank/params/distribution are trusted", "zero transaction fees (fee market NoBaseFee) so the fee collector receives vesting only", "reward lists with a duplicated denomination: only supply/pool clauses are demanded (statement ambiguous); panics there are C15's"},
		bounds: func(tier string) map[string]interface{} {
			b := c20.TierBounds(tier)
			return map[string]interface{}{"pool_values_per_denom": b.Pools, "reward_amounts": b.Amounts, "depth": b.Depth, "denoms": 2}
		},
		minClasses: 4,
	})
}
