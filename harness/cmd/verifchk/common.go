package main

import (
	"strings"
	"encoding/json"
	"fmt"
	"os"
	"time"

	"verif/internal/bfs"
	"verif/internal/ev"
)

// bfsCheck wires an explicit-state search into the check registry.
type bfsCheck struct {
	id         string
	spec       func(tier string) bfs.Spec
	rule       string
	assume     []string
	bounds     func(tier string) map[string]interface{}
	minClasses int // vacuity guard: at least this many distinct outcome classes must be seen
	propFilter string // when set, only violations whose signature starts with "<prop>:" are this check's; others are printed as notes
	variants   []string // further configurations searched by the same check; spec receives "<tier>/<variant>"
	extra      func(r *ev.Run, tier string) (evals, nontrivial int64) // a further exhaustive enumeration reported in the same evidence file
	// divergenceViolates: the statement fixes the exact outcome of every operation, so two executions of the same history
	// that disagree (the live instance versus a replay on re-opened instances) cannot both conform: a replay divergence is
	// reported as a violation instead of a harness error
	divergenceViolates bool
}

func registerBFS(b bfsCheck) {
	checks[b.id] = check{
		run: func(tier string) int { return runBFS(b, tier) },
		worker: func(tier string) {
			bfs.ServeWorker(b.spec(tier))
		},
		replay: func(path string) int { return replayBFS(b, path) },
	}
}

func runBFS(b bfsCheck, tier string) int {
	r := ev.Start(b.id, tier, "model_checking")
	var states, trans, traces int64
	exhaustive := true
	for _, variant := range append([]string{""}, b.variants...) {
		vt, pfx := tier, ""
		if variant != "" {
			vt, pfx = tier+"/"+variant, variant+": "
		}
		spec := b.spec(vt)
		spec.WorkerArgs = []string{"worker", b.id, vt}
		res, err := bfs.Run(spec)
		if err != nil && b.divergenceViolates && strings.Contains(err.Error(), "replay divergence") {
			r.Violation(b.id+":outcome-depends-on-what-the-process-executed-before", err.Error(), map[string]interface{}{"engine": "bfs", "check": b.id, "tier": vt, "divergence": err.Error()})
			return r.Finish(ev.Coverage{Rule: b.rule, Exhaustive: false, Bounds: b.bounds(tier), Assumptions: b.assume})
		}
		if err != nil {
			fmt.Printf("HARNESS-ERROR: %s: %v\n", b.id, err)
			return 2
		}
		for k, v := range res.Classes {
			r.Outcomes[pfx+k] = v
		}
		if len(res.Classes) < b.minClasses {
			fmt.Printf("HARNESS-ERROR: %s: vacuous exploration, only %d outcome classes (need %d)\n", b.id, len(res.Classes), b.minClasses)
			return 2
		}
		for _, s := range res.Samples {
			r.Sample(s)
		}
		r.Count(pfx+"max_depth", int64(res.MaxDepth))
		for d, n := range res.PerDepth {
			r.Count(fmt.Sprintf("%sfrontier_depth_%d", pfx, d), n)
		}
		if !res.Exhaustive {
			exhaustive = false
			r.Incomplete(pfx + res.Incomplete)
		}
		states += res.States
		trans += res.Transitions
		traces += res.Traces
		// confirm each violation by plain replays before believing it
		for _, f := range res.Violations {
			if b.propFilter != "" && !strings.HasPrefix(f.Sig, b.propFilter+":") {
				fmt.Printf("NOTE: while checking %s a monitor of another property fired (reported by that property's own check): %s -- %s\n", b.id, f.Sig, f.Detail)
				r.Note("other-property monitor fired: " + f.Sig)
				continue
			}
			same := 0
			for i := 0; i < 3; i++ {
				if replayHas(spec, f.History, f.Sig) {
					same++
				}
			}
			if same != 3 {
				fmt.Printf("HARNESS-ERROR: %s: violation %q not reproducible by plain replay (%d/3) history=%v\n", b.id, f.Sig, same, f.History)
				return 2
			}
			r.Violation(f.Sig, f.Detail, map[string]interface{}{"engine": "bfs", "check": b.id, "tier": vt, "history": f.History})
		}
	}
	var evals, nontrivial int64
	if b.extra != nil {
		evals, nontrivial = b.extra(r, tier)
	}
	return r.Finish(ev.Coverage{
		States: states, Transitions: trans, Traces: traces, Evaluations: evals, Distinct: nontrivial,
		Rule: b.rule, Exhaustive: exhaustive, Bounds: b.bounds(tier), Assumptions: b.assume,
	})
}

func replayHas(spec bfs.Spec, hist []string, sig string) (found bool) {
	defer func() {
		if r := recover(); r != nil {
			found = false
		}
	}()
	s, _, vs := bfs.Replay(spec, hist)
	vs = append(vs, s.Check()...)
	for _, v := range vs {
		if v.Sig == sig {
			return true
		}
	}
	return false
}

func replayBFS(b bfsCheck, path string) int {
	bz, err := os.ReadFile(path)
	if err != nil {
		fmt.Println(err)
		return 2
	}
	var f struct {
		Replay struct {
			Tier    string   `json:"tier"`
			History []string `json:"history"`
		} `json:"replay"`
	}
	if err := json.Unmarshal(bz, &f); err != nil {
		fmt.Println(err)
		return 2
	}
	spec := b.spec(f.Replay.Tier)
	s := spec.New()
	bad := 0
	for i, op := range f.Replay.History {
		obs, class, vs := s.Apply(op)
		fmt.Printf("step %d: %s\n   obs=%s\n   class=%s\n", i, op, obs, class)
		for _, v := range vs {
			bad++
			fmt.Printf("   VIOLATED %s: %s\n", v.Sig, v.Detail)
		}
	}
	for _, v := range s.Check() {
		bad++
		fmt.Printf("   VIOLATED (state) %s: %s\n", v.Sig, v.Detail)
	}
	if bad > 0 {
		return 1
	}
	return 0
}

func replayFile(path string) int {
	bz, err := os.ReadFile(path)
	if err != nil {
		fmt.Println(err)
		return 2
	}
	var f struct {
		Property string `json:"property"`
	}
	json.Unmarshal(bz, &f)
	c, ok := checks[f.Property]
	if !ok || c.replay == nil {
		fmt.Println("no replayer for", f.Property)
		return 2
	}
	return c.replay(path)
}

var _ = time.Second
