// verifchk runs one property check:  verifchk <Cxx> <quick|thorough>
// (also: verifchk worker <Cxx> <tier> — internal; verifchk replay <file>)
package main

import (
	"fmt"
	"os"

	"verif/internal/checks/c14"
	"verif/internal/checks/relay"
	"verif/internal/ev"
)

type check struct {
	run    func(tier string) int
	worker func(tier string)
	replay func(path string) int
}

var checks = map[string]check{}

func main() {
	if len(os.Args) < 3 {
		fmt.Println("usage: verifchk <Cxx> <quick|thorough> | verifchk replay <file>")
		os.Exit(2)
	}
	if os.Args[1] == "worker" {
		c, ok := checks[os.Args[2]]
		if !ok || c.worker == nil {
			os.Exit(2)
		}
		c.worker(os.Args[3])
		return
	}
	if os.Args[1] == "c14run" {
		for _, l := range c14.RunScenario(os.Args[2]) {
			fmt.Println(l)
		}
		return
	}
	if os.Args[1] == "smokeagg" {
		os.Exit(smokeAgg(os.Args[2], os.Args[3], os.Args[4]))
	}
	if os.Args[1] == "smoke" {
		os.Exit(smokeRelay(os.Args[2], os.Args[3], os.Args[4]))
	}
	if os.Args[1] == "replay" {
		os.Exit(replayFile(os.Args[2]))
	}
	c, ok := checks[os.Args[1]]
	if !ok {
		fmt.Println("HARNESS-ERROR: unknown check", os.Args[1])
		os.Exit(2)
	}
	tier := os.Args[2]
	if t := os.Getenv("VERIF_TIER"); t != "" && len(os.Args) < 3 {
		tier = t
	}
	if tier != "quick" && tier != "thorough" {
		fmt.Println("HARNESS-ERROR: tier must be quick or thorough")
		os.Exit(2)
	}
	os.Exit(runGuarded(os.Args[1], tier, c))
}

// runGuarded runs a check; if the relay history a check builds as its fixture already trips a monitor (the code under
// test misbehaves in the history every check takes for granted), that is reported as a violation of the running check's
// property — the fixture is part of what the check exercises — instead of crashing.
func runGuarded(id, tier string, c check) (code int) {
	defer func() {
		if rec := recover(); rec != nil {
			fv, ok := rec.(relay.FixtureViolation)
			if !ok {
				panic(rec)
			}
			level := "model_checking"
			switch id {
			case "C06", "C08", "C13", "C15", "C19":
				level = "exploration"
			}
			r := ev.Start(id, tier, level)
			for _, v := range fv.Viols {
				r.Violation(id+":fixture-history-trips-a-monitor/"+v.Sig, fmt.Sprintf("while building the relay history this check starts from, operation %q: %s", fv.Op, v.Detail), map[string]interface{}{"engine": "fixture", "op": fv.Op})
			}
			code = r.Finish(ev.Coverage{Evaluations: 1, Distinct: 1, Exhaustive: false, Rule: "the check's fixture history did not run cleanly: a monitor of the relay system reported a violation while it was built", Bounds: map[string]interface{}{"tier": tier}})
		}
	}()
	return c.run(tier)
}
