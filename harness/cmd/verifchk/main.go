// verifchk runs one property check:  verifchk <Cxx> <quick|thorough>
// (also: verifchk worker <Cxx> <tier> — internal; verifchk replay <file>)
package main

import (
	"fmt"
	"os"

	"verif/internal/checks/c14"
)

type check struct {
	run    func(tier string) int
	worker func(tier string)
	replay func(path string) int
}

var checks = map[string]check{}

func main() {
	if len(os.Args) < 3 {
		fmt.Println("usage: verifchk <Cxx> <quick|thorough> | verifchk replay <file>")
		os.Exit(2)
	}
	if os.Args[1] == "worker" {
		c, ok := checks[os.Args[2]]
		if !ok || c.worker == nil {
			os.Exit(2)
		}
		c.worker(os.Args[3])
		return
	}
	if os.Args[1] == "c14run" {
		for _, l := range c14.RunScenario(os.Args[2]) {
			fmt.Println(l)
		}
		return
	}
	if os.Args[1] == "smokeagg" {
		os.Exit(smokeAgg(os.Args[2], os.Args[3], os.Args[4]))
	}
	if os.Args[1] == "smoke" {
		os.Exit(smokeRelay(os.Args[2], os.Args[3], os.Args[4]))
	}
	if os.Args[1] == "replay" {
		os.Exit(replayFile(os.Args[2]))
	}
	c, ok := checks[os.Args[1]]
	if !ok {
		fmt.Println("HARNESS-ERROR: unknown check", os.Args[1])
		os.Exit(2)
	}
	tier := os.Args[2]
	if t := os.Getenv("VERIF_TIER"); t != "" && len(os.Args) < 3 {
		tier = t
	}
	if tier != "quick" && tier != "thorough" {
		fmt.Println("HARNESS-ERROR: tier must be quick or thorough")
		os.Exit(2)
	}
	os.Exit(c.run(tier))
}
