package main

import (
	"verif/internal/checks/c07"
	"verif/internal/checks/c19"
	"math/big"
	"verif/internal/checks/c08"
	"verif/internal/ev"
	"strings"
	"time"

	"verif/internal/bfs"
	"verif/internal/checks/relay"
)

func relayCfg(id, tier string) relay.Config {
	if tier == "script" {
		return relay.Config{Prop: id, Chains: 3, MaxSends: 14}
	}
	if strings.HasSuffix(tier, "/big") {
		// every ERC-20 amount is a multiple of 2^64+1: above 64 bits, with non-zero low bits (truncation anywhere on the way shows)
		c := relay.Config{Prop: id, Chains: 2, MaxSends: 2, Depth: 10, Scale: new(big.Int).Add(new(big.Int).Lsh(big.NewInt(1), 64), big.NewInt(1)),
			Sends:     []string{"A B erc20 3", "B A back 1", "A B erc20+callrevert 1", "A B feeonly1 1"},
			RecvForms: []string{"g1", "alt"}, AckForms: []string{"g1"}}
		if strings.HasPrefix(tier, "thorough") {
			c.MaxSends, c.Depth = 3, 14
		}
		return c
	}
	if strings.HasSuffix(tier, "/rescaled") {
		// the traces of the bound ERC-20 tokens were registered with scale 0 and corrected to scale 2 before the first transfer
		c := relay.Config{Prop: id, Chains: 2, MaxSends: 2, Depth: 13, TraceScale: 2,
			Sends:     []string{"A B erc20 3", "B A back 1", "A B erc20+callrevert 1", "B A back+callrevert 1"},
			RecvForms: []string{"g1", "alt"}, AckForms: []string{"g1", "altpkt"}}
		if strings.HasPrefix(tier, "thorough") {
			c.MaxSends, c.Depth = 3, 14
		}
		return c
	}
	if strings.HasSuffix(tier, "/tss") {
		return relayTSSCfg(id, strings.TrimSuffix(tier, "/tss"))
	}
	switch id {
	case "C01":
		c := relay.Config{Prop: id, Chains: 2, MaxSends: 2, Depth: 11,
			Sends:     []string{"A B erc20 3", "B A native 3", "A B erc20+callrevert 1"},
			RecvForms: []string{"g1", "g2", "reenc", "alt", "old", "mis", "dup2", "dupblk"},
			AckForms:  []string{"g1"}}
		if tier == "thorough" {
			c.Chains, c.MaxSends, c.Depth = 3, 3, 9
			c.Sends = []string{"A B erc20 3", "B A native 3", "C B erc20 1", "A B erc20+callok 1"}
		}
		return c
	case "C02":
		c := relay.Config{Prop: id, Chains: 3, MaxSends: 2, Depth: 9, Attacks: true, AttackSet: "single",
			Sends:     []string{"A B erc20 3", "B A native 1", "A B erc20+callrevert 1"},
			RecvForms: []string{"g1"}, AckForms: []string{"g1", "conflict", "early"}}
		if tier == "thorough" {
			c.AttackSet, c.Depth = "pairs", 10
		}
		return c
	case "C03":
		c := relay.Config{Prop: id, Chains: 2, MaxSends: 2, Depth: 12,
			Sends: []string{"A B erc20 3", "A B native 1", "B A back 1", "A B erc20+callok 1", "A B erc20+callrevert 1", "A B erc20+calleoa 1", "A B erc20+hookfail 1", "A B erc20+agentbad 1", "A B native+ctor 1"},
			RecvForms: []string{"g1", "g3"}, AckForms: []string{"g1"}}
		if tier == "thorough" {
			c.MaxSends, c.Depth = 3, 16
			c.Sends = append(c.Sends, "B A erc20 3", "A B native+hookfail 3")
		}
		return c
	case "C04":
		c := relay.Config{Prop: id, Chains: 3, MaxSends: 3, Depth: 5,
			Sends: []string{"A B erc20 1", "A C erc20 1", "A B unknown 1", "A B unknownslash 1", "A B unknowndot 1", "A B unknownup 1", "A B erc20 20000", "A B feeonly1 1", "A B direct 1", "B A erc20+agentgood 3", "B A erc20+agentbad 3", "A B native 1", "A B native+ctor 1", "A B forgedlog 1"},
			RecvForms: []string{"g1"}, AckForms: []string{"g1"}}
		if tier == "thorough" {
			c.MaxSends, c.Depth = 4, 9
		}
		return c
	case "C05":
		c := relay.Config{Prop: id, Chains: 2, MaxSends: 2, Depth: 12,
			Sends: []string{"A B erc20 3", "A B erc20+callrevert 1", "B A native 3", "A B feeonly1 1", "A B erc20+hookfail 1", "A B erc20+agentbad 1"},
			RecvForms: []string{"g1", "g2", "g3", "g4"}, AckForms: []string{"g1", "g2", "old", "conflict", "early", "dup2", "altpkt", "altfee"}}
		if tier == "thorough" {
			c.MaxSends, c.Depth = 3, 16
		}
		return c
	}
	panic("no relay config for " + id)
}

// relayTSSCfg: chain A follows chain B through a TSS client (the TSS account's signature replaces proofs), B follows A
// through a Tendermint client: receives of B->A packets and acknowledgements of A->B packets take the TSS path.
func relayTSSCfg(id, tier string) relay.Config {
	switch id {
	case "C01":
		c := relay.Config{Prop: id, TSS: true, Chains: 2, MaxSends: 2, Depth: 8,
			Sends:     []string{"B A erc20 3", "B A native 3", "A B erc20 3", "B A erc20+callrevert 1"},
			RecvForms: []string{"g1", "g2", "reenc", "dup2", "dupblk"}, AckForms: []string{"g1"}}
		if tier == "thorough" {
			c.MaxSends, c.Depth = 3, 10
		}
		return c
	case "C05":
		c := relay.Config{Prop: id, TSS: true, Chains: 2, MaxSends: 2, Depth: 9,
			Sends:     []string{"A B erc20 3", "A B erc20+callrevert 1", "B A native 3"},
			RecvForms: []string{"g1", "g2"}, AckForms: []string{"g1", "g2", "conflict", "early", "tssaddr", "dup2", "altpkt", "altfee"}}
		if tier == "thorough" {
			c.MaxSends, c.Depth = 3, 12
		}
		return c
	}
	panic("no tss relay config for " + id)
}

// scripted: besides the search, a fixed three-chain history (every chain ends up with packet state on two paths) is run
// with all monitors and state invariants, in particular the restart invariant (packet state survives the module's own
// genesis export and import) which needs several paths per chain to bite.
func scripted(prop string) func(r *ev.Run, tier string) (int64, int64) {
	return func(r *ev.Run, tier string) (int64, int64) {
		if prop == "C01" {
			// the exactly-once guard looks receipts and acknowledgements up by name: they must be found under exactly the written triple
			r.Count("point_lookup_cases", c19.PointLookups(r, c07.NewHost(), "C01"))
			// ... and a restarted chain still has them all
			r.Count("records_checked_after_export_and_import", c19.ManyRecords(r, "C01"))
		}
		steps, vs := relay.ScriptedViolations(prop)
		r.Note("scripted three-chain histories, every monitor and invariant after every step: module-level export/import of the packet state amid traffic; eleven packets in flight on one path; failing post-transaction hook; look-alike PacketSent logs; the v0.2 software upgrade; acknowledgements naming an empty relayer address; restart of the sending and of the receiving chain from the application's exported genesis (xibc, EVM and bank stores and the send counters must be what they were); a sender-named acknowledgement callback whose native action fails; tendermint clients with a 12 s delay period (every message offered one, two and three blocks after the update that makes it provable)")
		for _, v := range vs {
			r.Violation(v.Sig, v.Detail, map[string]interface{}{"engine": "bfs", "check": prop, "tier": "script", "history": v.History})
		}
		r.Count("scripted_three_chain_steps", int64(steps))
		return int64(steps), int64(steps)
	}
}

func registerRelay(id string, rule string, assume []string, minClasses int) {
	registerBFS(bfsCheck{
		id: id,
		spec: func(tier string) bfs.Spec {
			cfg := relayCfg(id, tier)
			d := 420 * time.Second // the quick frontiers need 60-120 s on an idle 16-core machine; the deadline leaves room for a loaded one
			if strings.HasPrefix(tier, "thorough") {
				d = 45 * time.Minute // the deepest searches (C02 with forged updates, C03 with three variants) need 20-30 min on an idle 16-core machine
			}
			return bfs.Spec{Name: id, New: func() bfs.System { return relay.New(cfg) }, MaxDepth: cfg.Depth, Deadline: d}
		},
		rule:   rule,
		assume: assume,
		bounds: func(tier string) map[string]interface{} {
			c := relayCfg(id, tier)
			m := map[string]interface{}{"chains": c.Chains, "max_sends": c.MaxSends, "depth": c.Depth, "send_menu": c.Sends, "recv_forms": c.RecvForms, "ack_forms": c.AckForms}
			if id == "C03" {
				t := relayCfg(id, tier+"/big")
				m["big_amount_variant"] = map[string]interface{}{"unit": t.Scale.String(), "max_sends": t.MaxSends, "depth": t.Depth, "send_menu": t.Sends}
				t = relayCfg(id, tier+"/rescaled")
				m["rescaled_trace_variant"] = map[string]interface{}{"trace_scale": t.TraceScale, "registered_first_with": 0, "max_sends": t.MaxSends, "depth": t.Depth, "send_menu": t.Sends}
			}
			if id == "C01" || id == "C05" {
				t := relayCfg(id, tier+"/tss")
				m["tss_variant"] = map[string]interface{}{"chains": t.Chains, "max_sends": t.MaxSends, "depth": t.Depth, "send_menu": t.Sends, "recv_forms": t.RecvForms, "ack_forms": t.AckForms}
			}
			return m
		},
		variants: map[string][]string{"C01": {"tss"}, "C05": {"tss"}, "C03": {"big", "rescaled"}}[id],
		extra: map[string]func(r *ev.Run, tier string) (int64, int64){
			// BSC- and ETH-secured counterparties: the proof component space of their verifiers (the C08 enumeration) is part of C02 too
			"C02": func(r *ev.Run, tier string) (int64, int64) { return c08.Run(r, "quick") },
			"C01": scripted("C01"), "C03": scripted("C03"), "C04": scripted("C04"), "C05": scripted("C05"),
		}[id],
		minClasses: minClasses,
		propFilter: id,
	})
}

func init() {
	assume := []string{"tendermint light client and IAVL proofs are the real ones; trusting period never reached within the horizon", "heights/times/app hashes are dropped from the canonical key (futures depend on them only through provability of pending artefacts)", "system contracts are exercised as byte code, not analysed"}
	registerRelay("C02", "(1) explicit-state BFS over three real chains (Tendermint-secured); in every reachable state that has a currently valid receive or acknowledgement message, every single mutation (thorough: every pair) of packet fields, ack fields, proof bytes, proven key, proof height, stated height and signer is delivered to a fork of that state; oracle = ground truth from the counterparty world: accepted => the source store at proofHeight-1 holds sha256(canonical packet) under exactly that triple and the consensus root equals the source app hash (acks: local commitment matches and the counterparty stores sha256(ack bytes)); rejected => store dumps unchanged. (2) BSC- and ETH-secured counterparties: the exhaustive proof-component enumeration of C08 (storage worlds x heights x delay settings x queries x 24 proof mutations, oracle from the generator's own tries) is run as part of this check; its cases are counted under evaluations", assume, 8)
	registerRelay("C03", "explicit-state BFS over two real chains: sends of ERC-20 / native / returning bound tokens with call data that succeeds, reverts, targets an EOA, fails in the post-transaction hook, or nests a failing cross-chain send; relays and acks in all orders; after every state the reference ledger of transfers (sent -> executed ok|failed -> acked|refunded) is compared with outTokens, endpoint escrow, bindings.amount and bound-token supply; error acks must leave no EVM/bank effect outside the packet contract; refunds must equal the amount exactly once", assume, 6)
	registerRelay("C04", "explicit-state BFS on chain A with clients for B and C: valid and failing sends (unknown destination, amount above balance, direct packet.sendPacket by a user), several destinations, sends triggered from inside a received packet (agent contract), interleaved with receives; after every tx: keeper counter = contract counter = ledger, every new commitment is numbered next, equals sha256 of the emitted bytes and has a matching event; failed sends change nothing", assume, 5)
	registerRelay("C05", "explicit-state BFS over two real chains (Tendermint-secured, and a variant where one direction is TSS-secured) with duplicated, conflicting, early and repeated acknowledgements, acknowledgements carrying an altered packet body under the same triple, and packets whose execution fails; every tx: acks/ keys never change or disappear, an accepted receive writes exactly one ack = sha256(announced bytes), a commitment disappears only in an accepted ack whose packet hashes to it and whose ack bytes the counterparty really stores (ground truth from the counterparty's store), ackStatus 0->1|2 once, relayer fee once, refund once", assume, 6)
	registerRelay("C01", "explicit-state BFS over 2-3 real chains joined by real tendermint clients and IAVL proofs; ops: send / client update / receive in 8 forms (genuine by either relayer, re-encoded, altered payload, older proof, mis-stated height, twice in one tx, twice in one block) / ack; every tx compared with the reference ledger of accepted triples; states deduplicated on per-packet life-cycle stage + provability + token balances",
		[]string{"tendermint light client and IAVL proofs are the real ones; trusting period never reached within the horizon", "heights/times/app hashes are dropped from the canonical key (futures depend on them only through provability of pending artefacts)"}, 6)
}
