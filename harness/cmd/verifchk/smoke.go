package main

import (
	"fmt"
	"os"
	"strings"
	"time"

	"verif/internal/checks/agg"
	"verif/internal/checks/relay"
)

// smoke: verifchk smoke relay "<op>;<op>;..."  — scripted history on the relay system (debug aid).
func init() {
	checks["smoke"] = check{run: func(string) int { return 0 }}
}

func smokeRelay(id, tier, script string) int {
	cfg := relayCfg(id, tier)
	t0 := time.Now()
	s := relay.New(cfg)
	fmt.Println("setup", time.Since(t0))
	bad := 0
	for _, op := range strings.Split(script, ";") {
		op = strings.TrimSpace(op)
		if op == "" {
			continue
		}
		if op == "ops" {
			for _, o := range s.Ops() {
				fmt.Println("   enabled:", o)
			}
			continue
		}
		t1 := time.Now()
		obs, class, vs := s.Apply(op)
		fmt.Printf("%-28s -> %s | %s (%s)\n", op, obs, class, time.Since(t1))
		for _, v := range append(vs, s.Check()...) {
			bad++
			fmt.Printf("     VIOL %s: %s\n", v.Sig, v.Detail)
		}
		fmt.Println("     key:", s.Key())
	}
	return bad
}

func init() {
	if len(os.Args) > 4 && os.Args[1] == "smoke" {
		// handled in main via checks map? simpler: run here and exit
		defer func() {}()
	}
}

func smokeAgg(id, tier, script string) int {
	s := agg.New(aggCfg(id, tier))
	bad := 0
	for _, op := range strings.Split(script, ";") {
		op = strings.TrimSpace(op)
		if op == "" {
			continue
		}
		obs, class, vs := s.Apply(op)
		fmt.Printf("%-40s -> %s | %s\n", op, obs, class)
		for _, v := range append(vs, s.Check()...) {
			bad++
			fmt.Printf("     VIOL %s: %s\n", v.Sig, v.Detail)
		}
	}
	return bad
}
