// Package bfs is the explicit-state search engine: breadth-first search over
// the states of a real system reached by operation histories. A state is the
// history reaching it; successors are computed by replaying the history on a
// fresh instance (in a worker process) and applying every enabled operation on
// a clone. States are deduplicated by a canonical key supplied by the system.
package bfs

import (
	"bufio"
	"encoding/json"
	"fmt"
	"io"
	"os"
	"os/exec"
	"runtime"
	"sync"
	"time"
)

// Viol is a violation found by a step oracle or a state invariant.
type Viol struct {
	Sig    string `json:"sig"`
	Detail string `json:"detail"`
}

// System is a live instance of the system under exploration.
type System interface {
	Clone() System
	Ops() []string // enabled operations, canonical order, simplest first
	// Apply executes op; obs is a deterministic observation of the step.
	Apply(op string) (obs string, class string, viols []Viol)
	Key() string   // canonical state key (sound abstraction argued per check)
	Check() []Viol // state invariants
}

// Spec describes a search.
type Spec struct {
	Name     string
	New      func() System
	MaxDepth int
	// MaxStates caps the number of states expanded (0 = none); hitting it makes the run non-exhaustive.
	MaxStates int
	Deadline  time.Duration
	Workers   int
	// InProcess runs expansion in goroutines instead of worker processes.
	InProcess bool
	// WorkerArgs are the arguments to re-invoke this binary as a worker.
	WorkerArgs []string
}

type succ struct {
	Op    string `json:"op"`
	Obs   string `json:"obs"`
	Class string `json:"class"`
	Key   string `json:"key"`
	Viols []Viol `json:"viols,omitempty"`
}

type request struct {
	Hist []string `json:"hist"`
}

type response struct {
	ReplayObs []string `json:"replay_obs"`
	Succ      []succ   `json:"succ"`
	Err       string   `json:"err,omitempty"`
}

// Result of a search.
type Result struct {
	States      int64
	Transitions int64
	Traces      int64 // histories executed on the real implementation
	MaxDepth    int
	Exhaustive  bool
	Incomplete  string
	Classes     map[string]int64
	Violations  []Found
	Samples     [][]string
	PerDepth    []int64
}

// Found is a violation with the history that exhibits it.
type Found struct {
	Viol
	History []string `json:"history"`
}

// Replay builds the state reached by hist on a fresh instance; returns per-step observations.
func Replay(spec Spec, hist []string) (System, []string, []Viol) {
	s := spec.New()
	var obs []string
	var vs []Viol
	for _, op := range hist {
		o, _, v := s.Apply(op)
		obs = append(obs, o)
		vs = append(vs, v...)
	}
	return s, obs, vs
}

func expand(spec Spec, hist []string) (resp response) {
	defer func() {
		if r := recover(); r != nil {
			buf := make([]byte, 4096)
			n := runtime.Stack(buf, false)
			resp = response{Err: fmt.Sprintf("panic in harness/system: %v\n%s", r, buf[:n])}
		}
	}()
	s, obs, _ := Replay(spec, hist)
	resp.ReplayObs = obs
	for _, op := range s.Ops() {
		c := s.Clone()
		o, class, vs := c.Apply(op)
		vs = append(vs, c.Check()...)
		resp.Succ = append(resp.Succ, succ{Op: op, Obs: o, Class: class, Key: c.Key(), Viols: vs})
	}
	return resp
}

// ServeWorker runs the worker loop on stdin/stdout.
func ServeWorker(spec Spec) {
	in := bufio.NewReaderSize(os.Stdin, 1<<20)
	out := bufio.NewWriter(os.Stdout)
	enc := json.NewEncoder(out)
	dec := json.NewDecoder(in)
	for {
		var req request
		if err := dec.Decode(&req); err != nil {
			return
		}
		resp := expand(spec, req.Hist)
		enc.Encode(resp)
		out.Flush()
	}
}

type worker interface {
	do(hist []string) response
	close()
}

type procWorker struct {
	cmd *exec.Cmd
	enc *json.Encoder
	dec *json.Decoder
	in  io.WriteCloser
}

func (w *procWorker) do(hist []string) response {
	if err := w.enc.Encode(request{Hist: hist}); err != nil {
		return response{Err: "worker write: " + err.Error()}
	}
	var r response
	if err := w.dec.Decode(&r); err != nil {
		return response{Err: "worker died: " + err.Error()}
	}
	return r
}
func (w *procWorker) close() { w.in.Close(); w.cmd.Wait() }

type goWorker struct{ spec Spec }

func (w goWorker) do(hist []string) response { return expand(w.spec, hist) }
func (w goWorker) close()                    {}

func newWorker(spec Spec) (worker, error) {
	if spec.InProcess {
		return goWorker{spec}, nil
	}
	exe, err := os.Executable()
	if err != nil {
		return nil, err
	}
	cmd := exec.Command(exe, spec.WorkerArgs...)
	cmd.Env = append(os.Environ(), "GOMAXPROCS=2")
	cmd.Stderr = os.Stderr
	in, err := cmd.StdinPipe()
	if err != nil {
		return nil, err
	}
	outp, err := cmd.StdoutPipe()
	if err != nil {
		return nil, err
	}
	if err := cmd.Start(); err != nil {
		return nil, err
	}
	return &procWorker{cmd: cmd, enc: json.NewEncoder(in), dec: json.NewDecoder(bufio.NewReaderSize(outp, 1<<20)), in: in}, nil
}

type node struct {
	hist []string
	obs  []string
}

// Run executes the search. A harness error is returned as error (never as a violation).
func Run(spec Spec) (*Result, error) {
	start := time.Now()
	if spec.Workers == 0 {
		spec.Workers = runtime.NumCPU()
	}
	res := &Result{Classes: map[string]int64{}, Exhaustive: true}
	init := spec.New()
	seen := map[string]bool{init.Key(): true}
	for _, v := range init.Check() {
		res.Violations = append(res.Violations, Found{v, nil})
	}
	res.States = 1
	frontier := []node{{}}
	workers := make([]worker, 0, spec.Workers)
	for i := 0; i < spec.Workers; i++ {
		w, err := newWorker(spec)
		if err != nil {
			return nil, err
		}
		workers = append(workers, w)
	}
	defer func() {
		for _, w := range workers {
			w.close()
		}
	}()
	violSeen := map[string]bool{}
	for depth := 0; depth < spec.MaxDepth && len(frontier) > 0; depth++ {
		res.PerDepth = append(res.PerDepth, int64(len(frontier)))
		type job struct {
			i    int
			resp response
		}
		jobs := make(chan int, len(frontier))
		results := make([]response, len(frontier))
		for i := range frontier {
			jobs <- i
		}
		close(jobs)
		var wg sync.WaitGroup
		var stop bool
		var mu sync.Mutex
		for _, w := range workers {
			wg.Add(1)
			go func(w worker) {
				defer wg.Done()
				for i := range jobs {
					mu.Lock()
					st := stop
					mu.Unlock()
					if st {
						results[i] = response{Err: "skipped"}
						continue
					}
					if spec.Deadline > 0 && time.Since(start) > spec.Deadline {
						mu.Lock()
						stop = true
						mu.Unlock()
						results[i] = response{Err: "skipped"}
						continue
					}
					results[i] = w.do(frontier[i].hist)
				}
			}(w)
		}
		wg.Wait()
		var next []node
		for i, r := range results {
			if r.Err == "skipped" {
				res.Exhaustive = false
				res.Incomplete = fmt.Sprintf("deadline %s reached at depth %d (levels below fully covered)", spec.Deadline, depth)
				continue
			}
			if r.Err != "" {
				return res, fmt.Errorf("history %v: %s", frontier[i].hist, r.Err)
			}
			n := frontier[i]
			// replay determinism: the prefix must reproduce the observations recorded at discovery
			if len(r.ReplayObs) != len(n.obs) {
				return res, fmt.Errorf("replay length mismatch for %v", n.hist)
			}
			for k := range n.obs {
				if n.obs[k] != r.ReplayObs[k] {
					return res, fmt.Errorf("replay divergence at step %d of %v:\n first: %s\n replay: %s", k, n.hist, n.obs[k], r.ReplayObs[k])
				}
			}
			res.Traces++
			for _, s := range r.Succ {
				res.Transitions++
				res.Traces++
				res.Classes[s.Class]++
				h := append(append([]string{}, n.hist...), s.Op)
				for _, v := range s.Viols {
					if !violSeen[v.Sig] {
						violSeen[v.Sig] = true
						res.Violations = append(res.Violations, Found{v, h})
					}
				}
				if !seen[s.Key] {
					seen[s.Key] = true
					res.States++
					if len(res.Samples) < 4 || (len(h) > res.MaxDepth && len(res.Samples) < 8) {
						res.Samples = append(res.Samples, h)
					}
					if len(h) > res.MaxDepth {
						res.MaxDepth = len(h)
					}
					if spec.MaxStates > 0 && int(res.States) > spec.MaxStates {
						res.Exhaustive = false
						res.Incomplete = fmt.Sprintf("state cap %d reached", spec.MaxStates)
						continue
					}
					next = append(next, node{hist: h, obs: append(append([]string{}, n.obs...), s.Obs)})
				}
			}
		}
		frontier = next
	}
	if len(frontier) > 0 && res.Exhaustive {
		// depth bound reached with unexpanded states: exhaustive within the depth bound only
		res.Incomplete = ""
	}
	res.PerDepth = append(res.PerDepth, int64(len(frontier)))
	return res, nil
}
