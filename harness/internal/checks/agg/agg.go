// Package agg is the explicit-state model of the aggregate module on one real
// chain: conversions are real transactions, registry actions run through the
// real governance handler inside real blocks. Monitors are tagged with the
// property they decide (C11 conversions/backing, C12 registry consistency).
package agg

import (
	paramproposal "github.com/cosmos/cosmos-sdk/x/params/types/proposal"
	"github.com/cosmos/cosmos-sdk/x/params"
	"github.com/teleport-network/teleport/x/aggregate"
	"bytes"
	"fmt"
	"math/big"
	"sort"
	"strings"

	"github.com/tendermint/tendermint/crypto/tmhash"

	sdk "github.com/cosmos/cosmos-sdk/types"
	authtypes "github.com/cosmos/cosmos-sdk/x/auth/types"
	banktypes "github.com/cosmos/cosmos-sdk/x/bank/types"
	govtypes "github.com/cosmos/cosmos-sdk/x/gov/types"

	"github.com/ethereum/go-ethereum/common"
	"github.com/ethereum/go-ethereum/crypto"
	evmtypes "github.com/tharsis/ethermint/x/evm/types"

	erc20contracts "github.com/teleport-network/teleport/syscontracts/erc20"
	aggregatetypes "github.com/teleport-network/teleport/x/aggregate/types"

	"verif/internal/bfs"
	"verif/internal/checks/c13"
	"verif/internal/world"
)

// Config selects the operation alphabet.
type Config struct {
	Ops   []string // operation templates (see Ops())
	Depth int
}

var moduleAcc = authtypes.NewModuleAddress(aggregatetypes.ModuleName)

type Sys struct {
	cfg   Config
	w     *world.World
	c     *world.Chain
	tok   map[string]common.Address // "ext", "ext2", "steal", "delayed", "mod" (after registration)
	dead  bool
	names []string
	off   bool // reference model: governance switched the module off (set when the parameter-change proposal is accepted)
	hookOff bool // reference model: governance switched the (unused) EVM-hook parameter off
}

var denoms = []string{"acoin", "bcoin", "ccoin"}

// New builds the fixture: coins with supply, deployed external tokens; registry empty.
func New(cfg Config) *Sys {
	s := &Sys{cfg: cfg, w: world.NewWorld(), tok: map[string]common.Address{}}
	extra := sdk.NewCoins()
	for _, d := range denoms {
		extra = extra.Add(sdk.NewInt64Coin(d, 10))
	}
	s.c = s.w.Add("teleport_9000-10", world.Options{Accounts: []string{"u1", "u2"}, ExtraCoins: map[string]sdk.Coins{"u1": extra, "u2": extra}})
	s.w.Block(s.c)
	u1 := s.c.Accounts["u1"]
	s.w.Do(s.c, func(ctx sdk.Context) {
		for _, n := range []string{"ext", "ext2"} {
			t := world.DeployERC20From(s.c, ctx, u1.Eth, "tokext") // same name/symbol: an address update between them is admissible
			world.KeeperCall(s.c, ctx, erc20contracts.ERC20MinterBurnerDecimalsContract.ABI, u1.Eth, t, "mint", u1.Eth, big.NewInt(10))
			s.tok[n] = t
		}
		// the repository's two malicious tokens
		for _, mal := range []struct {
			n  string
			cc evmtypes.CompiledContract
		}{{"steal", erc20contracts.ERC20DirectBalanceManipulationContract}, {"delayed", erc20contracts.ERC20MaliciousDelayedContract}} {
			n, cc := mal.n, mal.cc
			ctor, err := cc.ABI.Pack("", big.NewInt(10))
			if err != nil {
				panic(err)
			}
			nonce := s.c.App.EvmKeeper.GetNonce(ctx, u1.Eth)
			addr := crypto.CreateAddress(u1.Eth, nonce)
			if _, err := s.c.App.AggregateKeeper.CallEVMWithData(ctx, u1.Eth, nil, append(append([]byte{}, cc.Bin...), ctor...)); err != nil {
				panic(err)
			}
			s.tok[n] = addr
		}
	})
	s.names = []string{"ext", "ext2", "steal", "delayed"}
	return s
}

func (s *Sys) Clone() bfs.System {
	n := *s
	n.w = s.w.Clone()
	n.c = n.w.Chains["teleport_9000-10"]
	n.tok = map[string]common.Address{}
	for k, v := range s.tok {
		n.tok[k] = v
	}
	return &n
}

// pairs returns all stored pairs.
func (s *Sys) pairs() []aggregatetypes.TokenPair {
	return s.c.App.AggregateKeeper.GetAllTokenPairs(s.c.ReadCtx())
}

// resolve expands symbolic operands: token names, "mod" (first module-owned pair's contract), "vouch:<name>".
func (s *Sys) addr(name string) common.Address {
	if name == "mod" || name == "mod2" {
		i := 0
		for _, p := range s.pairs() {
			if p.IsNativeCoin() {
				if (name == "mod" && i == 0) || (name == "mod2" && i == 1) {
					return p.GetERC20Contract()
				}
				i++
			}
		}
		return common.HexToAddress("0x00000000000000000000000000000000000000fe")
	}
	if name == "eoa" {
		return s.c.Accounts["u2"].Eth
	}
	return s.tok[name]
}

func (s *Sys) denom(name string) string {
	if strings.HasPrefix(name, "v:") {
		return aggregatetypes.CreateDenom(s.addr(name[2:]).String())
	}
	return name
}

func (s *Sys) Ops() []string {
	if s.dead {
		return nil
	}
	return s.cfg.Ops
}

type snapshot struct {
	bank   map[string]int64 // "<acct>/<denom>"
	erc    map[string]int64 // "<acct>/<token>"
	supply map[string]int64 // denom or "erc:<token>"
}

func (s *Sys) observe() snapshot {
	sn := snapshot{map[string]int64{}, map[string]int64{}, map[string]int64{}}
	ctx := s.c.ReadCtx()
	accts := map[string]sdk.AccAddress{"u1": s.c.Accounts["u1"].Acc, "u2": s.c.Accounts["u2"].Acc, "module": moduleAcc}
	ds := append([]string{}, denoms...)
	toks := map[string]common.Address{}
	for _, n := range s.names {
		toks[n] = s.tok[n]
		ds = append(ds, aggregatetypes.CreateDenom(s.tok[n].String()))
	}
	for _, p := range s.pairs() {
		toks[s.tokName(p)] = p.GetERC20Contract()
	}
	for an, a := range accts {
		for _, d := range ds {
			if v := s.c.App.BankKeeper.GetBalance(ctx, a, d).Amount; !v.IsZero() {
				sn.bank[an+"/"+d] = v.Int64()
			}
		}
		for tn, t := range toks {
			if acc := s.c.App.EvmKeeper.GetAccountWithoutBalance(ctx, t); acc == nil || !acc.IsContract() {
				continue
			}
			if v := s.bal(t, common.BytesToAddress(a)); v.Sign() != 0 {
				sn.erc[an+"/"+tn] = v.Int64()
			}
		}
	}
	for _, d := range ds {
		if v := s.c.App.BankKeeper.GetSupply(ctx, d).Amount; !v.IsZero() {
			sn.supply[d] = v.Int64()
		}
	}
	for tn, t := range toks {
		if acc := s.c.App.EvmKeeper.GetAccountWithoutBalance(ctx, t); acc == nil || !acc.IsContract() {
			continue
		}
		if v := s.sup(t); v.Sign() != 0 {
			sn.supply["erc:"+tn] = v.Int64()
		}
	}
	return sn
}

// safe views: a registered "token" may be any contract
func (s *Sys) bal(t common.Address, who common.Address) (v *big.Int) {
	defer func() {
		if r := recover(); r != nil {
			v = big.NewInt(0)
		}
	}()
	return s.c.ERC20Balance(t, who)
}

func (s *Sys) sup(t common.Address) (v *big.Int) {
	defer func() {
		if r := recover(); r != nil {
			v = big.NewInt(0)
		}
	}()
	return s.c.ERC20Supply(t)
}

func (sn snapshot) String() string {
	var out []string
	for _, m := range []map[string]int64{sn.bank, sn.erc, sn.supply} {
		var ks []string
		for k := range m {
			ks = append(ks, k)
		}
		sort.Strings(ks)
		for _, k := range ks {
			out = append(out, fmt.Sprintf("%s=%d", k, m[k]))
		}
		out = append(out, "|")
	}
	return strings.Join(out, " ")
}

func deltas(a, b snapshot) map[string]int64 {
	out := map[string]int64{}
	for name, pair := range map[string][2]map[string]int64{"bank:": {a.bank, b.bank}, "erc:": {a.erc, b.erc}, "supply:": {a.supply, b.supply}} {
		keys := map[string]bool{}
		for k := range pair[0] {
			keys[k] = true
		}
		for k := range pair[1] {
			keys[k] = true
		}
		for k := range keys {
			if d := pair[1][k] - pair[0][k]; d != 0 {
				out[name+k] = d
			}
		}
	}
	return out
}

func fmtDelta(d map[string]int64) string {
	var ks []string
	for k := range d {
		ks = append(ks, k)
	}
	sort.Strings(ks)
	var out []string
	for _, k := range ks {
		out = append(out, fmt.Sprintf("%s%+d", k, d[k]))
	}
	return strings.Join(out, " ")
}

var stores = []string{banktypes.StoreKey, evmtypes.StoreKey, aggregatetypes.StoreKey}

func dumpAll(c *world.Chain) map[string]map[string]string {
	out := map[string]map[string]string{}
	for _, n := range stores {
		out[n] = c.DumpStore(n)
	}
	return out
}

func diffAll(a, b map[string]map[string]string) []string {
	var out []string
	for _, n := range stores {
		for _, d := range world.DiffStores(a[n], b[n]) {
			out = append(out, n+":"+d)
		}
	}
	return out
}

// Apply executes one operation (one block).
func (s *Sys) Apply(op string) (obs, class string, viols []bfs.Viol) {
	add := func(prop, sig, d string) { viols = append(viols, bfs.Viol{Sig: prop + ":" + sig, Detail: d}) }
	f := strings.Fields(op)
	k := s.c.App.AggregateKeeper
	switch f[0] {
	case "cc": // cc <denom> <from> <to> <amt>   ConvertCoin
		d := s.denom(f[1])
		from := s.c.Accounts[f[2]]
		var to common.Address
		if f[3] == "blocked" {
			to = common.BytesToAddress(authtypes.NewModuleAddress("fee_collector"))
		} else {
			to = s.c.Accounts[f[3]].Eth
		}
		var amt int64
		fmt.Sscan(f[4], &amt)
		msg := aggregatetypes.NewMsgConvertCoin(sdk.NewInt64Coin(d, amt), to, from.Acc)
		return s.convert(op, "coin->token", d, f[2], f[3], amt, s.c.CosmosTx(from, msg), add)
	case "ce": // ce <token> <denom> <from> <to> <amt>   ConvertERC20
		t := s.addr(f[1])
		d := s.denom(f[2])
		from := s.c.Accounts[f[3]]
		var to sdk.AccAddress
		if f[4] == "blocked" {
			to = authtypes.NewModuleAddress("fee_collector")
		} else {
			to = s.c.Accounts[f[4]].Acc
		}
		var amt int64
		fmt.Sscan(f[5], &amt)
		msg := aggregatetypes.NewMsgConvertERC20(sdk.NewInt(amt), to, t, from.Eth, d)
		return s.convertERC20(op, t, d, f[3], f[4], amt, s.c.CosmosTx(from, msg), add)
	case "gov": // registry actions through the real proposal handler
		var content govtypes.Content
		switch f[1] {
		case "regcoin": // gov regcoin <base> <name>
			content = &aggregatetypes.RegisterCoinProposal{Title: "t", Description: "d", Metadata: c13.Meta(f[2], f[3])}
		case "addcoin": // gov addcoin <base> <name> <token>
			content = &aggregatetypes.AddCoinProposal{Title: "t", Description: "d", Metadata: c13.Meta(f[2], f[3]), ContractAddress: s.addr(f[4]).Hex()}
		case "regerc20":
			content = aggregatetypes.NewRegisterERC20Proposal("t", "d", s.addr(f[2]).Hex())
		case "toggle":
			tk := f[2]
			if _, ok := s.tok[tk]; ok || tk == "mod" {
				tk = s.addr(tk).Hex()
			} else {
				tk = s.denom(tk)
			}
			content = aggregatetypes.NewToggleTokenRelayProposal("t", "d", tk)
		case "update":
			content = aggregatetypes.NewUpdateTokenPairERC20Proposal("t", "d", s.addr(f[2]).Hex(), s.addr(f[3]).Hex())
		case "enable", "hook":
			pkey := map[string]string{"enable": "EnableAggregate", "hook": "EnableEVMHook"}[f[1]]
			// parameter change through the real parameter-change proposal handler addressing the raw key, as governance does
			var perr error
			s.w.Do(s.c, func(ctx sdk.Context) {
				prop := paramproposal.NewParameterChangeProposal("t", "d", []paramproposal.ParamChange{{Subspace: aggregatetypes.ModuleName, Key: pkey, Value: f[2]}})
				cctx, write := ctx.CacheContext()
				if perr = params.NewParamChangeProposalHandler(s.c.App.ParamsKeeper)(cctx, prop); perr == nil {
					write()
				}
			})
			if perr != nil {
				add("C11", "well-formed-parameter-change-refused", perr.Error())
			} else if f[1] == "enable" {
				s.off = f[2] == "false"
			} else {
				s.hookOff = f[2] == "false" // the EVM-hook switch alone neither disables nor enables conversions
			}
			return "params", "params " + pkey + "=" + f[2], append(viols, s.registryCheck(add)...)
		}
		if err := content.ValidateBasic(); err != nil {
			return "invalid-basic", "gov " + f[1] + " refused stateless", nil
		}
		handler := s.c.App.GovKeeper.Router().GetRoute(content.ProposalRoute())
		// a toggle flips the switch of exactly the pair it names (by contract or by any of its denominations)
		enabledBefore := map[string]bool{}
		target := ""
		for _, p := range s.pairs() {
			enabledBefore[p.ERC20Address] = p.Enabled
		}
		if f[1] == "toggle" {
			for _, p := range s.pairs() {
				if tp := content.(*aggregatetypes.ToggleTokenRelayProposal); strings.EqualFold(tp.Token, p.ERC20Address) {
					target = p.ERC20Address
				} else {
					for _, d := range p.Denoms {
						if d == tp.Token {
							target = p.ERC20Address
						}
					}
				}
			}
		}
		var err error
		s.w.Do(s.c, func(ctx sdk.Context) {
			cctx, write := ctx.CacheContext()
			if err = handler(cctx, content); err == nil {
				write()
			}
		})
		class = "gov " + f[1] + " executed"
		obs = class
		if err != nil {
			class = "gov " + f[1] + " failed"
			obs = class + ": " + err.Error()
		}
		// only a toggle changes a pair's switch, and exactly the named pair's; an updated pair carries its switch to the new contract
		for _, p := range s.pairs() {
			was, known := enabledBefore[p.ERC20Address]
			if f[1] == "update" && err == nil && strings.EqualFold(p.ERC20Address, s.addr(f[3]).Hex()) {
				was, known = enabledBefore[s.addr(f[2]).Hex()]
			}
			want := was
			if f[1] == "toggle" && err == nil && p.ERC20Address == target {
				want = !was
			}
			if known && p.Enabled != want {
				add("C11", "pair-switch-changed-by-another-action", fmt.Sprintf("%s (err=%v): pair %s %v enabled %v -> %v, want %v", op, err, p.ERC20Address, p.Denoms, was, p.Enabled, want))
			}
		}
		if f[1] == "toggle" && err == nil && target == "" {
			add("C11", "toggle-of-an-unregistered-token-succeeded", op)
		}
		return obs, class, append(viols, s.registryCheck(add)...)
	case "reimport": // the aggregate module's state goes through its own genesis export and import (a restart from an exported genesis)
		var derr string
		s.w.Do(s.c, func(ctx sdk.Context) {
			gs := aggregate.ExportGenesis(ctx, *k)
			bz := s.c.App.AppCodec().MustMarshalJSON(gs)
			var back aggregatetypes.GenesisState
			s.c.App.AppCodec().MustUnmarshalJSON(bz, &back)
			if err := back.Validate(); err != nil {
				derr = err.Error()
				return
			}
			st := ctx.KVStore(s.c.App.GetKey(aggregatetypes.StoreKey))
			var keys [][]byte
			it := st.Iterator(nil, nil)
			for ; it.Valid(); it.Next() {
				keys = append(keys, append([]byte{}, it.Key()...))
			}
			it.Close()
			for _, kk := range keys {
				st.Delete(kk)
			}
			aggregate.InitGenesis(ctx, *k, s.c.App.AccountKeeper, back)
		})
		if derr != "" {
			add("C12", "exported-registry-fails-own-validation", derr)
		}
		return "reimported", "registry exported and re-imported", append(viols, s.registryCheck(add)...)
	case "destruct": // the contract account disappears (as the repository's own tests model self-destruction)
		t := s.addr(f[1])
		s.w.Do(s.c, func(ctx sdk.Context) {
			if err := s.c.App.EvmKeeper.DeleteAccount(ctx, t); err != nil {
				panic(err)
			}
		})
		return "destructed", "contract self-destructed", nil
	}
	panic("bad op " + op)
}

func (s *Sys) pairOf(token common.Address) (aggregatetypes.TokenPair, bool) {
	ctx := s.c.ReadCtx()
	return s.c.App.AggregateKeeper.GetTokenPair(ctx, s.c.App.AggregateKeeper.GetERC20Map(ctx, token))
}

func (s *Sys) pairOfDenom(d string) (aggregatetypes.TokenPair, bool) {
	ctx := s.c.ReadCtx()
	return s.c.App.AggregateKeeper.GetTokenPair(ctx, s.c.App.AggregateKeeper.GetDenomMap(ctx, d))
}

type addFn func(prop, sig, d string)

func (s *Sys) tokName(p aggregatetypes.TokenPair) string {
	for _, n := range s.names {
		if s.tok[n] == p.GetERC20Contract() {
			return n
		}
	}
	return p.ERC20Address
}

func (s *Sys) convert(op, dir, d, from, to string, amt int64, tx []byte, add addFn) (string, string, []bfs.Viol) {
	var viols []bfs.Viol
	addv := func(prop, sig, dd string) { viols = append(viols, bfs.Viol{Sig: prop + ":" + sig, Detail: dd}) }
	pair, had := s.pairOfDenom(d)
	enabled := !s.off // the reference model's view, not the module's own reading of its parameters
	before := s.observe()
	pre := dumpAll(s.c)
	res := s.w.Block(s.c, tx)[0]
	post := dumpAll(s.c)
	after := s.observe()
	got := deltas(before, after)
	class := "convert coin->token"
	if res.Code != 0 {
		class += " refused"
		if dd := diffAll(pre, post); len(dd) > 0 {
			addv("C11", "failed-conversion-changed-state", fmt.Sprintf("%s failed (%s) but changed %v", op, res.Log, dd))
		}
		return "refused", class, append(viols, s.backing(addv)...)
	}
	class += " ok"
	if !had || !enabled || !pair.Enabled || to == "blocked" {
		addv("C11", "conversion-not-refused", fmt.Sprintf("%s succeeded although pairRegistered=%v moduleEnabled=%v pairEnabled=%v receiver=%s", op, had, enabled, pair.Enabled, to))
	}
	if _, still := s.pairOfDenom(d); had && !still {
		// clean-up of a self-destructed contract: nothing may move
		class += " (pair of destroyed contract removed)"
		if len(got) > 0 {
			addv("C11", "cleanup-moved-value", fmt.Sprintf("%s: %s", op, fmtDelta(got)))
		}
		return "cleanup", class, append(viols, s.registryCheck(addv)...)
	}
	tn := s.tokName(pair)
	want := map[string]int64{"bank:" + from + "/" + d: -amt, "erc:" + to + "/" + tn: amt}
	if pair.IsNativeCoin() {
		want["bank:module/"+d] = amt
		want["supply:erc:"+tn] = amt
	} else {
		want["erc:module/"+tn] = -amt
		want["supply:"+d] = -amt
	}
	if fmtDelta(got) != fmtDelta(want) {
		addv("C11", "conversion-moved-wrong-amounts/coin-to-token", fmt.Sprintf("%s: moved {%s}, the statement requires {%s}", op, fmtDelta(got), fmtDelta(want)))
	}
	return "ok", class, append(viols, s.backing(addv)...)
}

func (s *Sys) convertERC20(op string, t common.Address, d, from, to string, amt int64, tx []byte, add addFn) (string, string, []bfs.Viol) {
	var viols []bfs.Viol
	addv := func(prop, sig, dd string) { viols = append(viols, bfs.Viol{Sig: prop + ":" + sig, Detail: dd}) }
	pair, had := s.pairOf(t)
	pd, hadD := s.pairOfDenom(d)
	same := had && hadD && bytes.Equal(pair.GetID(), pd.GetID())
	enabled := !s.off // the reference model's view, not the module's own reading of its parameters
	before := s.observe()
	pre := dumpAll(s.c)
	res := s.w.Block(s.c, tx)[0]
	post := dumpAll(s.c)
	after := s.observe()
	got := deltas(before, after)
	class := "convert token->coin"
	if res.Code != 0 {
		class += " refused"
		if dd := diffAll(pre, post); len(dd) > 0 {
			addv("C11", "failed-conversion-changed-state", fmt.Sprintf("%s failed (%s) but changed %v", op, res.Log, dd))
		}
		return "refused", class, append(viols, s.backing(addv)...)
	}
	class += " ok"
	if !same || !enabled || !pair.Enabled || to == "blocked" {
		addv("C11", "conversion-not-refused", fmt.Sprintf("%s succeeded although tokenAndDenomInOnePair=%v moduleEnabled=%v pairEnabled=%v receiver=%s", op, same, enabled, pair.Enabled, to))
	}
	if _, still := s.pairOf(t); had && !still {
		class += " (pair of destroyed contract removed)"
		if len(got) > 0 {
			addv("C11", "cleanup-moved-value", fmt.Sprintf("%s: %s", op, fmtDelta(got)))
		}
		return "cleanup", class, append(viols, s.registryCheck(addv)...)
	}
	tn := s.tokName(pair)
	want := map[string]int64{"erc:" + from + "/" + tn: -amt, "bank:" + to + "/" + d: amt}
	if pair.IsNativeCoin() {
		want["supply:erc:"+tn] = -amt
		want["bank:module/"+d] = -amt
	} else {
		want["erc:module/"+tn] = amt
		want["supply:"+d] = amt
	}
	if fmtDelta(got) != fmtDelta(want) {
		addv("C11", "conversion-moved-wrong-amounts/token-to-coin", fmt.Sprintf("%s: moved {%s}, the statement requires {%s}", op, fmtDelta(got), fmtDelta(want)))
	}
	return "ok", class, append(viols, s.backing(addv)...)
}

// backing: module-owned token supply <= escrowed coins of its denominations; voucher supply <= escrowed tokens.
func (s *Sys) backing(add addFn) []bfs.Viol {
	var viols []bfs.Viol
	sn := s.observe()
	ctx := s.c.ReadCtx()
	for _, p := range s.pairs() {
		t := p.GetERC20Contract()
		if acc := s.c.App.EvmKeeper.GetAccountWithoutBalance(ctx, t); acc == nil || !acc.IsContract() {
			continue
		}
		if p.IsNativeCoin() {
			var escrow int64
			for _, d := range p.Denoms {
				escrow += s.c.App.BankKeeper.GetBalance(ctx, moduleAcc, d).Amount.Int64()
			}
			if sup := s.sup(t).Int64(); sup > escrow {
				viols = append(viols, bfs.Viol{Sig: "C11:module-owned-token-not-fully-backed", Detail: fmt.Sprintf("pair %s %v: totalSupply %d > escrowed coins %d (%s)", p.ERC20Address, p.Denoms, sup, escrow, sn)})
			}
		} else if len(p.Denoms) == 1 {
			sup := s.c.App.BankKeeper.GetSupply(ctx, p.Denoms[0]).Amount.Int64()
			if esc := s.bal(t, aggregatetypes.ModuleAddress).Int64(); sup > esc {
				viols = append(viols, bfs.Viol{Sig: "C11:voucher-not-fully-backed", Detail: fmt.Sprintf("pair %s voucher %s: supply %d > escrowed tokens %d", p.ERC20Address, p.Denoms[0], sup, esc)})
			}
		}
	}
	return viols
}

// registryCheck: raw iteration of the three prefixes (C12).
func (s *Sys) registryCheck(add addFn) []bfs.Viol {
	var viols []bfs.Viol
	addv := func(sig, d string) { viols = append(viols, bfs.Viol{Sig: "C12:" + sig, Detail: d}) }
	raw := s.c.DumpStore(aggregatetypes.StoreKey)
	pairs := map[string]aggregatetypes.TokenPair{}
	byErc := map[string]string{}
	byDenom := map[string]string{}
	for k, v := range raw {
		switch k[0] {
		case aggregatetypes.KeyPrefixTokenPair[0]:
			var p aggregatetypes.TokenPair
			s.c.App.AppCodec().MustUnmarshal([]byte(v), &p)
			pairs[k[1:]] = p
		case aggregatetypes.KeyPrefixTokenPairByERC20[0]:
			byErc[k[1:]] = v
		case aggregatetypes.KeyPrefixTokenPairByDenom[0]:
			byDenom[k[1:]] = v
		}
	}
	seenDenom := map[string]string{}
	seenErc := map[string]string{}
	for id, p := range pairs {
		if want := string(tmhash.Sum([]byte(p.ERC20Address + "|" + p.Denoms[0]))); id != want {
			addv("pair-stored-under-wrong-id", fmt.Sprintf("pair %s %v stored under %x", p.ERC20Address, p.Denoms, id))
		}
		if byErc[string(p.GetERC20Contract().Bytes())] != id {
			addv("pair-not-found-by-its-contract", fmt.Sprintf("pair %s %v: contract index points to %x", p.ERC20Address, p.Denoms, byErc[string(p.GetERC20Contract().Bytes())]))
		}
		for _, d := range p.Denoms {
			if byDenom[d] != id {
				addv("pair-not-found-by-its-denomination", fmt.Sprintf("pair %s %v: denomination index of %s points to %x (want %x)", p.ERC20Address, p.Denoms, d, byDenom[d], id))
			}
			if other, ok := seenDenom[d]; ok && other != id {
				addv("denomination-in-two-pairs", fmt.Sprintf("denomination %s is listed by two pairs", d))
			}
			seenDenom[d] = id
		}
		if other, ok := seenErc[p.ERC20Address]; ok && other != id {
			addv("contract-in-two-pairs", fmt.Sprintf("contract %s belongs to two pairs", p.ERC20Address))
		}
		seenErc[strings.ToLower(p.ERC20Address)] = id
	}
	// the public look-ups (keeper id look-up and the gRPC queries clients use) find every pair by its contract and by each denomination
	ctx := s.c.ReadCtx()
	k := s.c.App.AggregateKeeper
	for id, p := range pairs {
		for _, token := range append([]string{p.ERC20Address}, p.Denoms...) {
			if got := k.GetTokenPairID(ctx, token); string(got) != id {
				addv("pair-not-found-by-id-look-up", fmt.Sprintf("pair %s %v: GetTokenPairID(%s) = %x", p.ERC20Address, p.Denoms, token, got))
			}
			res, err := k.TokenPair(sdk.WrapSDKContext(ctx), &aggregatetypes.QueryTokenPairRequest{Token: token})
			if err != nil || res.TokenPair.ERC20Address != p.ERC20Address || fmt.Sprint(res.TokenPair.Denoms) != fmt.Sprint(p.Denoms) {
				addv("pair-not-found-by-query", fmt.Sprintf("pair %s %v: query TokenPair(%s) answers %v %v", p.ERC20Address, p.Denoms, token, res, err))
			}
		}
	}
	if res, err := k.TokenPairs(sdk.WrapSDKContext(ctx), &aggregatetypes.QueryTokenPairsRequest{}); err != nil || len(res.TokenPairs) != len(pairs) {
		addv("pairs-query-does-not-list-every-pair", fmt.Sprintf("query TokenPairs answers %v %v, the store holds %d pairs", res, err, len(pairs)))
	}
	for a, id := range byErc {
		p, ok := pairs[id]
		if !ok {
			addv("contract-entry-points-to-missing-pair", fmt.Sprintf("contract %x -> %x", a, id))
		} else if string(p.GetERC20Contract().Bytes()) != a {
			addv("contract-entry-points-to-pair-not-listing-it", fmt.Sprintf("contract %x -> pair of %s", a, p.ERC20Address))
		}
	}
	for d, id := range byDenom {
		p, ok := pairs[id]
		if !ok {
			addv("denomination-entry-points-to-missing-pair", fmt.Sprintf("denomination %s -> %x", d, id))
			continue
		}
		listed := false
		for _, x := range p.Denoms {
			if x == d {
				listed = true
			}
		}
		if !listed {
			addv("denomination-entry-points-to-pair-not-listing-it", fmt.Sprintf("denomination %s -> pair %s %v", d, p.ERC20Address, p.Denoms))
		}
	}
	return viols
}

func (s *Sys) Key() string {
	raw := s.c.DumpStore(aggregatetypes.StoreKey)
	var ks []string
	for k, v := range raw {
		ks = append(ks, fmt.Sprintf("%x=%x", k, v))
	}
	sort.Strings(ks)
	destroyed := ""
	for _, n := range s.names {
		if acc := s.c.App.EvmKeeper.GetAccountWithoutBalance(s.c.ReadCtx(), s.tok[n]); acc == nil || !acc.IsContract() {
			destroyed += n + ","
		}
	}
	p := s.c.App.AggregateKeeper.GetParams(s.c.ReadCtx())
	return fmt.Sprintf("%s|en=%v/%v/%v|dead=%s|%s", s.observe(), p.EnableAggregate, !s.off, !s.hookOff, destroyed, tmhash.Sum([]byte(strings.Join(ks, ";"))))
}

func (s *Sys) Check() []bfs.Viol {
	v := s.registryCheck(nil)
	return append(v, s.backing(nil)...)
}
