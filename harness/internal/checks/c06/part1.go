// Package c06 decides C06: who may drive the bridge.
// Part 1: every relayer registry x signer x message kind x client kind, with an
// otherwise valid message, on forks of one prepared three-chain world.
// Part 2: every privileged method of the system contracts x every caller path.
package c06

import (
	"github.com/teleport-network/teleport/x/xibc/core/host"
	"crypto/sha256"
	"encoding/json"
	"fmt"
	"sort"
	"strings"

	sdk "github.com/cosmos/cosmos-sdk/types"

	tsstypes "github.com/teleport-network/teleport/x/xibc/clients/tss-client/types"
	xibcclient "github.com/teleport-network/teleport/x/xibc/core/client"
	clienttypes "github.com/teleport-network/teleport/x/xibc/core/client/types"
	packettypes "github.com/teleport-network/teleport/x/xibc/core/packet/types"

	"verif/internal/checks/relay"
	"verif/internal/ev"
	"verif/internal/world"
)

// regEntry: the chains a relayer is registered for (order matters: index i of Chains maps to Addresses[i]).
type regEntry []string // e.g. ["B"], ["C","B"]; nil = not registered

var regChoices = []regEntry{nil, {"B"}, {"C"}, {"B", "C"}, {"C", "B"}}

func (r regEntry) has(c string) bool {
	for _, x := range r {
		if x == c {
			return true
		}
	}
	return false
}

var long = map[string]string{"A": relay.A, "B": relay.B, "C": relay.C}

// counterpartyAddr is the address governance registers for (relayer, chain): distinct per pair so that index mix-ups show.
func counterpartyAddr(c *world.Chain, relayer, chain string) string {
	if chain == "B" {
		return c.Accounts[relayer].Acc.String()
	}
	return c.Accounts["out"].Acc.String() + "" // for C every relayer names the outsider account as its address there
}

func baseWorld(tss bool) *relay.Sys {
	s := relay.New(relay.Config{Chains: 3, MaxSends: 8, TSS: tss})
	s.Run("send A B erc20 3", "send A C erc20 3", "send B A native 1", "send C A native 1")
	round := []string{"upd B A", "upd C A", "upd A C"}
	if !tss {
		round = append(round, "upd A B")
	}
	s.Run(round...)
	s.Run(round...)
	s.Run("recv A>B#1 g1", "recv A>C#1 g1")
	s.Run(round...)
	s.Run(round...)
	// packets the counterparties committed without teleport's endpoint contract (a counterparty may run other software):
	// one whose callback on A reverts outright and one for a destination A has no client for; both end in an error
	// acknowledgement written by the message server itself
	for _, ch := range []string{"B", "C"} {
		cp := s.World().Chains[long[ch]]
		s.World().Do(cp, func(ctx sdk.Context) {
			for _, kind := range []string{"reverts"} { // (a packet for a third chain is refused by ValidatePacket: the "dstChain not found" branch is unreachable)
				p, bz := rawPacket(cp.Name, kind)
				h := sha256.Sum256(bz)
				cp.App.XIBCKeeper.PacketKeeper.SetPacketCommitment(ctx, p.SrcChain, p.DstChain, p.Sequence, h[:])
			}
		})
	}
	s.Run(round...)
	s.Run(round...)
	s.Run("upd B A", "upd C A") // B and C are ahead of A's clients again: an update message is valid
	return s
}

// rawPacket is a packet of the given kind from chain src to A.
func rawPacket(src, kind string) (packettypes.Packet, []byte) {
	p := packettypes.Packet{SrcChain: src, DstChain: relay.A, Sequence: 50, Sender: "0x00000000000000000000000000000000000000aa", CallData: []byte{1, 2, 3}}
	if kind == "case-variant" {
		// the counterparty's name in another letter case is another chain: no client and no registration exist for it
		p.SrcChain = strings.ToUpper(src)
		p.Sequence = 51
	}
	if kind == "unknown-destination" {
		p = packettypes.Packet{SrcChain: src, DstChain: "ghost-chain", Sequence: 1, Sender: "0x00000000000000000000000000000000000000aa", CallData: []byte{1, 2, 3}}
	}
	bz, err := p.ABIPack()
	if err != nil {
		panic(err)
	}
	return p, bz
}

type p1case struct {
	Registry map[string]regEntry // relayer name -> chains
	Rereg    string              // "" or a description of the earlier registration that was overwritten
	Signer   string
	Kind     string // upd | recv | ack
	Chain    string // B | C
	TSS      bool
	Packet   string // recv only: "" (an ordinary transfer) | "reverts" | "unknown-destination"
	TSSAcct  string // the configured TSS account: "u2" (as created) or the account a governance upgrade of the TSS client rotated to
	Proof    string // TSS-secured receive/ack only: "" (harness default) | "tss-address" (the public TSS address written into the proof field) | "empty"
}

func (c p1case) String() string {
	var rs []string
	for _, n := range []string{"r1", "r2", "u2"} {
		rs = append(rs, fmt.Sprintf("%s:%v", n, []string(c.Registry[n])))
	}
	return fmt.Sprintf("registry{%s}%s signer=%s msg=%s(%s%s) tssClientForB=%v", strings.Join(rs, " "), c.Rereg, c.Signer, c.Kind, c.Chain, map[string]string{"": "", "reverts": ", callback reverts", "unknown-destination": ", unknown destination", "case-variant": ", source name in another letter case"}[c.Packet]+map[string]string{"": "", "tss-address": ", proof field = TSS address", "empty": ", empty proof field"}[c.Proof], fmt.Sprintf("%v(tss account %s)", c.TSS, c.TSSAcct))
}

func register(c *world.Chain, ctx sdk.Context, relayer string, chains regEntry) {
	if chains == nil {
		return
	}
	var cs, as []string
	for _, ch := range chains {
		cs = append(cs, long[ch])
		as = append(as, counterpartyAddr(c, relayer, ch))
	}
	p := clienttypes.NewRegisterRelayerProposal("t", "d", c.Accounts[relayer].Acc.String(), cs, as)
	if err := p.ValidateBasic(); err != nil {
		panic(err)
	}
	h := xibcclient.NewClientProposalHandler(c.App.XIBCKeeper.ClientKeeper)
	if err := h(ctx, p); err != nil {
		panic(err)
	}
}

// Part1 runs the signer matrix.
func Part1(r *ev.Run, tier string) (evals, nontrivial int64) {
	relayers := []string{"r1", "r2", "u2"} // u2 is the TSS account of the TSS variant
	signers := []string{"r1", "r2", "u2", "out"}
	for _, tss := range []bool{false, true} {
		base := baseWorld(tss)
		// registries: all assignments for r1 and r2 (quick: u2 only none/[B]; thorough: all)
		u2Choices := []regEntry{nil, {"B"}}
		if tier == "thorough" {
			u2Choices = regChoices
		}
		type regCase struct {
			reg   map[string]regEntry
			first map[string]regEntry // earlier registration, overwritten by reg
			note  string
		}
		var regs []regCase
		for _, a := range regChoices {
			for _, b := range regChoices {
				for _, c := range u2Choices {
					regs = append(regs, regCase{reg: map[string]regEntry{"r1": a, "r2": b, "u2": c}})
				}
			}
		}
		// re-registration histories: first registration is overwritten completely
		for _, first := range []regEntry{{"B"}, {"C"}, {"B", "C"}} {
			for _, second := range []regEntry{{"B"}, {"C"}} {
				regs = append(regs, regCase{reg: map[string]regEntry{"r1": second, "r2": {"B", "C"}, "u2": {"B"}}, first: map[string]regEntry{"r1": first}, note: fmt.Sprintf(" (r1 re-registered: %v -> %v)", []string(first), []string(second))})
			}
		}
		type regRot struct {
			regCase
			rot string
		}
		var cases []regRot
		for i, rc := range regs {
			cases = append(cases, regRot{rc, "u2"})
			// the TSS client upgraded by governance to another TSS account (quick: every fourth registry)
			if tss && (tier == "thorough" || i%4 == 1) {
				cases = append(cases, regRot{rc, "r2"})
			}
		}
		for _, rcr := range cases {
			rc, tssAcct := rcr.regCase, rcr.rot
			// one fork per registry; messages are delivered on forks of that fork
			w := base.Clone().(*relay.Sys)
			a := w.World().Chains[relay.A]
			if tssAcct != "u2" {
				w.World().Do(a, func(ctx sdk.Context) {
					p, err := clienttypes.NewUpgradeClientProposal("t", "d", long["B"], &tsstypes.ClientState{TssAddress: a.Accounts[tssAcct].Acc.String(), Pubkey: []byte{7}, PartPubkeys: [][]byte{{8}}, Threshold: 1}, &tsstypes.ConsensusState{})
					if err != nil {
						panic(err)
					}
					if err := xibcclient.NewClientProposalHandler(a.App.XIBCKeeper.ClientKeeper)(ctx, p); err != nil {
						panic(err)
					}
				})
			}
			w.World().Do(a, func(ctx sdk.Context) {
				// wipe the fixture's registrations by overwriting: fixture registered r1,r2 for B and C
				for _, n := range relayers {
					if rc.first != nil && rc.first[n] != nil {
						register(a, ctx, n, rc.first[n])
					}
				}
				for _, n := range relayers {
					if rc.reg[n] != nil {
						register(a, ctx, n, rc.reg[n])
					} else {
						// "not registered": the registry has no delete; register for a chain nobody uses
						p := clienttypes.NewRegisterRelayerProposal("t", "d", a.Accounts[n].Acc.String(), []string{"unused-chain"}, []string{"x"})
						h := xibcclient.NewClientProposalHandler(a.App.XIBCKeeper.ClientKeeper)
						if err := h(ctx, p); err != nil {
							panic(err)
						}
					}
				}
			})
			for _, signer := range signers {
				for _, kind := range []string{"upd", "recv", "ack"} {
					for _, ch := range []string{"B", "C"} {
						pkts := []string{""}
						if kind == "recv" {
							pkts = append(pkts, "reverts", "case-variant")
						}
						proofs := []string{""}
						if tss && ch == "B" && kind != "upd" {
							proofs = append(proofs, "tss-address", "empty")
						}
						for _, pk := range pkts {
							for _, pf := range proofs {
								c := p1case{Registry: rc.reg, Rereg: rc.note, Signer: signer, Kind: kind, Chain: ch, TSS: tss, Packet: pk, Proof: pf, TSSAcct: tssAcct}
								evals++
								if one(r, w, c) {
									nontrivial++
								}
								if evals%397 == 1 {
									r.Sample(c.String())
								}
							}
						}
					}
				}
			}
		}
	}
	return
}

// one executes a single case on a fork; returns true when the message was accepted.
func one(r *ev.Run, w0 *relay.Sys, c p1case) bool {
	w := w0 // messages are built against the (read-only) fork; only chain A is cloned for delivery
	a0 := w.World().Chains[relay.A]
	a := a0.Clone()
	signer := a.Accounts[c.Signer]
	cp := w.World().Chains[long[c.Chain]]
	tssHere := c.TSS && c.Chain == "B"
	var msg sdk.Msg
	switch c.Kind {
	case "upd":
		if tssHere {
			hdr := &tsstypes.Header{TssAddress: a.Accounts[c.TSSAcct].Acc.String(), Pubkey: []byte{3}, PartPubkeys: [][]byte{{4}}, Threshold: 1}
			m, err := clienttypes.NewMsgUpdateClient(cp.Name, hdr, signer.Acc)
			if err != nil {
				panic(err)
			}
			msg = m
		} else {
			msg = world.MsgUpdate(a0, cp, 0, signer)
		}
	case "recv":
		if c.Packet == "" {
			m, _ := w.GenuineRecv(c.Chain+">A#1", c.Signer)
			msg = m
		} else {
			p, bz := rawPacket(cp.Name, c.Packet)
			proof, ph := []byte("tss"), clienttypes.NewHeight(0, uint64(cp.Height()))
			if !tssHere {
				proof, ph, _ = cp.QueryProof(host.PacketCommitmentKey(p.SrcChain, p.DstChain, p.Sequence), int64(a0.ClientLatest(cp.Name).RevisionHeight))
			}
			msg = packettypes.NewMsgRecvPacket(bz, proof, ph, signer.Acc)
		}
	case "ack":
		m, _ := w.GenuineAck("A>"+c.Chain+"#1", c.Signer)
		msg = m
	}
	if tssHere && c.Proof != "" {
		pf := []byte(a.Accounts[c.TSSAcct].Acc.String())
		if c.Proof == "empty" {
			pf = nil
		}
		switch m := msg.(type) {
		case *packettypes.MsgRecvPacket:
			m.ProofCommitment = pf
		case *packettypes.MsgAcknowledgement:
			m.ProofAcked = pf
		}
	}
	reg := c.Registry[c.Signer]
	authorised := true
	why := ""
	if c.Kind != "ack" && !reg.has(c.Chain) {
		authorised, why = false, "signer is not registered as relayer for "+c.Chain
	}
	if c.Packet == "case-variant" {
		authorised, why = false, "the packet names a chain (other letter case) for which neither a client nor a relayer registration exists"
	}
	if tssHere && c.Signer != c.TSSAcct {
		authorised, why = false, "counterparty is TSS-secured and the signer is not the configured TSS account"
	}
	pre := relay.DumpStores(a)
	res := a.Block(w.World().Now.Add(world.BlockStep), a.CosmosTx(signer, msg))[0]
	post := relay.DumpStores(a)
	accepted := res.Code == 0
	cls := fmt.Sprintf("%s tss=%v authorised=%v accepted=%v", c.Kind, tssHere, authorised, accepted)
	r.Outcome(cls)
	if accepted && !authorised {
		r.Violation(fmt.Sprintf("C06:unauthorised-%s-accepted/%s", c.Kind, strings.ReplaceAll(why, " ", "-")), c.String(), map[string]interface{}{"engine": "c06-part1", "case": c.String()})
	}
	if !accepted {
		if d := relay.DiffStores(pre, post); len(d) > 0 {
			r.Violation("C06:rejected-message-changed-state/"+c.Kind, fmt.Sprintf("%s: %v", c.String(), d), map[string]interface{}{"engine": "c06-part1", "case": c.String()})
		}
		if authorised && strings.Contains(res.Log, "panic") {
			r.Outcome("authorised message failed with a recovered panic: " + c.Kind + fmt.Sprintf(" tss=%v", tssHere))
		}
	}
	if accepted && c.Kind == "recv" {
		// the fee recipient recorded in the acknowledgement is the address registered for (signer, chain)
		acks := world.TypedEventAttr(res, "xibc.core.packet.v1.EventWriteAck", "ack")
		want := counterpartyAddr(a, c.Signer, c.Chain)
		ok := false
		for _, e := range acks {
			raw := decodeJSONBytes(e)
			var ack packettypes.Acknowledgement
			if ack.ABIDecode(raw) == nil && ack.Relayer == want {
				ok = true
				if c.Packet != "" {
					r.Outcome(fmt.Sprintf("recv (%s): acknowledgement code=%d %q names the registered address", c.Packet, ack.Code, ack.Message))
				}
			}
		}
		if !ok {
			r.Violation("C06:ack-relayer-is-not-the-registered-counterparty-address", fmt.Sprintf("%s: want ack.Relayer=%s", c.String(), want), map[string]interface{}{"engine": "c06-part1", "case": c.String()})
		}
	}
	return accepted
}

func decodeJSONBytes(s string) []byte {
	var out []byte
	if len(s) >= 2 && s[0] == '"' {
		_ = json.Unmarshal([]byte(s), &out)
	}
	return out
}

var _ = sort.Strings
