package c06

import (
	"fmt"
	"math/big"
	"reflect"
	"sort"
	"strings"

	sdk "github.com/cosmos/cosmos-sdk/types"

	"github.com/ethereum/go-ethereum/accounts/abi"
	"github.com/ethereum/go-ethereum/common"
	"github.com/ethereum/go-ethereum/crypto"

	endpointcontract "github.com/teleport-network/teleport/syscontracts/xibc_endpoint"
	packetcontract "github.com/teleport-network/teleport/syscontracts/xibc_packet"
	aggregatetypes "github.com/teleport-network/teleport/x/aggregate/types"
	packettypes "github.com/teleport-network/teleport/x/xibc/core/packet/types"

	"verif/internal/checks/relay"
	"verif/internal/ev"
	"verif/internal/world"
)

type target struct {
	name string
	abi  abi.ABI
	addr common.Address
}

// user-facing entry points. execute.execute is observed to be open to every caller; the statement does not list it
// among the privileged entry points, and the matrix below shows that the execute contract's own identity holds no
// privilege (every privileged method rejects calls coming from it), so it is treated as user-facing.
var userFacing = map[string]bool{"endpoint.crossChainCall": true, "packet.addPacketFee": true, "execute.execute": true}

// Forwarder runtime: calldata = 32-byte target word ‖ payload; calls target with payload; reverts if the call fails.
//
//	PUSH1 20 CALLDATASIZE SUB            len = size-32
//	DUP1 PUSH1 20 PUSH1 0 CALLDATACOPY   mem[0:len] = calldata[32:]
//	PUSH1 0 PUSH1 0 DUP3 PUSH1 0 PUSH1 0 retSize retOff argsSize argsOff value
//	PUSH1 0 CALLDATALOAD GAS CALL        call(gas, target, 0, 0, len, 0, 0)
//	ISZERO PUSH1 1c JUMPI STOP           success -> stop
//	JUMPDEST PUSH1 0 PUSH1 0 REVERT      failure -> revert
var forwarderRuntime = common.FromHex("602036038060206000376000600082600060006000355af115601d57005b60006000fd")

// initCode wraps a runtime (< 256 bytes) into deployment code.
func initCode(runtime []byte) []byte {
	n := byte(len(runtime))
	return append([]byte{0x60, n, 0x60, 0x0c, 0x60, 0x00, 0x39, 0x60, n, 0x60, 0x00, 0xf3}, runtime...)
}

// argsFor builds well-formed arguments for a method from parameter names and types.
func argsFor(w *relay.Sys, m abi.Method, pkt packettypes.Packet, ack packettypes.Acknowledgement) []interface{} {
	a := w.World().Chains[relay.A]
	var out []interface{}
	for _, in := range m.Inputs {
		n := strings.ToLower(in.Name)
		switch in.Type.T {
		case abi.StringTy:
			switch {
			case strings.Contains(n, "chain"):
				out = append(out, relay.B)
			case strings.Contains(n, "oritoken"):
				out = append(out, "0x00000000000000000000000000000000000000aa")
			default:
				out = append(out, "x")
			}
		case abi.UintTy:
			switch in.Type.Size {
			case 8:
				out = append(out, uint8(1))
			case 64:
				if m.Name == "setSequence" {
					out = append(out, uint64(7))
				} else {
					out = append(out, uint64(1))
				}
			default:
				v := int64(5)
				switch {
				case strings.Contains(n, "period"):
					v = 3600
				case strings.Contains(n, "limit"):
					v = 1000
				case strings.Contains(n, "max"):
					v = 100
				case strings.Contains(n, "min"):
					v = 1
				}
				out = append(out, big.NewInt(v))
			}
		case abi.AddressTy:
			if strings.Contains(n, "token") {
				out = append(out, w.Token("A:bound:B:erc20"))
			} else {
				out = append(out, a.Accounts["out"].Eth)
			}
		case abi.BytesTy:
			out = append(out, []byte{})
		case abi.TupleTy:
			switch {
			case len(in.Type.TupleElems) == 8:
				out = append(out, pkt)
			case len(in.Type.TupleElems) == 5:
				out = append(out, ack)
			case len(in.Type.TupleElems) == 2 && in.Type.TupleElems[0].T == abi.AddressTy:
				out = append(out, packettypes.Fee{TokenAddress: common.Address{}, Amount: big.NewInt(0)})
			case len(in.Type.TupleElems) == 2:
				out = append(out, packettypes.CallData{ContractAddress: strings.ToLower(a.Accounts["out"].Eth.String()), CallData: []byte{1}})
			default:
				out = append(out, reflect.New(in.Type.GetType()).Elem().Interface())
			}
		default:
			out = append(out, reflect.New(in.Type.GetType()).Elem().Interface())
		}
	}
	return out
}

// Part2 runs the privileged-method x caller-path matrix on chain A of a prepared world.
func Part2(r *ev.Run, tier string) (evals, nontrivial int64) {
	w := relay.New(relay.Config{Chains: 2, MaxSends: 8})
	// an un-acked outgoing packet A>B#1 (so ack-related methods have something to act on) and
	// an incoming packet B>A#1 provable on A
	w.Run("send A B feeonly1 1", "send B A native 1", "upd A B", "upd B A", "upd A B", "upd B A", "recv A>B#1 g1", "upd A B", "upd B A", "upd A B")
	a := w.World().Chains[relay.A]
	u := a.Accounts["u1"]
	// deploy the forwarder from u1
	fwd := crypto.CreateAddress(u.Eth, a.App.EvmKeeper.GetNonce(a.ReadCtx(), u.Eth))
	res := w.World().Block(a, a.EthTx(u, nil, nil, initCode(forwarderRuntime)))
	if !res[0].OK() {
		panic("forwarder deployment failed: " + res[0].Log + res[0].VMError)
	}
	targets := []target{
		{"packet", packetcontract.PacketContract.ABI, packetcontract.PacketContractAddress},
		{"endpoint", endpointcontract.EndpointContract.ABI, endpointcontract.EndpointContractAddress},
		{"execute", endpointcontract.ExecuteContract.ABI, endpointcontract.ExecuteContractAddress},
	}
	mr, _ := w.GenuineRecv("B>A#1", "r1")
	var inPkt packettypes.Packet
	if err := inPkt.ABIDecode(mr.Packet); err != nil {
		panic(err)
	}
	ma, _ := w.GenuineAck("A>B#1", "r1")
	var outPkt packettypes.Packet
	outPkt.ABIDecode(ma.Packet)
	var ack packettypes.Acknowledgement
	ack.ABIDecode(ma.Acknowledgement)

	controllers := []common.Address{packettypes.ModuleAddress, aggregatetypes.ModuleAddress, packetcontract.PacketContractAddress, endpointcontract.EndpointContractAddress}
	for _, t := range targets {
		var names []string
		for n, m := range t.abi.Methods {
			if m.IsConstant() || userFacing[t.name+"."+n] {
				continue
			}
			names = append(names, n)
		}
		sort.Strings(names)
		for _, n := range names {
			m := t.abi.Methods[n]
			pkt := inPkt
			if strings.Contains(strings.ToLower(n), "ack") {
				pkt = outPkt
			}
			args := argsFor(w, m, pkt, ack)
			payload, err := t.abi.Pack(n, args...)
			if err != nil {
				r.Note(fmt.Sprintf("cannot build arguments for %s.%s: %v (not covered)", t.name, n, err))
				continue
			}
			id := t.name + "." + n
			// positive control: one of the chain's own callers can execute it
			control := false
			for _, from := range controllers {
				ctx := a.ReadCtx()
				if _, err := a.App.XIBCKeeper.PacketKeeper.CallEVMWithData(ctx, from, &t.addr, payload); err == nil {
					control = true
					break
				}
			}
			r.Outcome(fmt.Sprintf("control %-40s executable-by-own-modules=%v", id, control))
			if control {
				nontrivial++
			}
			type path struct {
				name string
				tx   func(c *world.Chain) []byte
			}
			paths := []path{
				{"externally-owned-account", func(c *world.Chain) []byte { return c.EthTx(c.Accounts["out"], &t.addr, nil, payload) }},
				{"forwarder-contract", func(c *world.Chain) []byte {
					data := append(common.LeftPadBytes(t.addr.Bytes(), 32), payload...)
					return c.EthTx(c.Accounts["out"], &fwd, nil, data)
				}},
				{"execute-contract-called-by-user", func(c *world.Chain) []byte {
					cd := packettypes.CallData{ContractAddress: strings.ToLower(t.addr.String()), CallData: payload}
					data, err := endpointcontract.ExecuteContract.ABI.Pack("execute", cd)
					if err != nil {
						panic(err)
					}
					return c.EthTx(c.Accounts["out"], &endpointcontract.ExecuteContractAddress, nil, data)
				}},
			}
			for _, p := range paths {
				c := a.Clone()
				pre := relay.DumpStores(c)
				res := c.Block(w.World().Now.Add(world.BlockStep), p.tx(c))[0]
				post := relay.DumpStores(c)
				evals++
				d := relay.DiffStores(pre, post)
				r.Outcome(fmt.Sprintf("call %-40s via %-32s ok=%v changed=%v", id, p.name, res.OK(), len(d) > 0))
				if evals%7 == 1 {
					r.Sample(map[string]string{"method": id, "path": p.name, "result": fmt.Sprintf("ok=%v vmError=%q", res.OK(), res.VMError)})
				}
				exercised := res.OK() || len(d) > 0
				if p.name == "execute-contract-called-by-user" {
					// execute() reports the inner call's outcome instead of reverting
					exercised = len(d) > 0
					if vals, err := endpointcontract.ExecuteContract.ABI.Unpack("execute", res.Ret); err == nil && len(vals) > 0 {
						if ok, isBool := vals[0].(bool); isBool && ok {
							exercised = true
						}
					}
				}
				if exercised {
					r.Violation(fmt.Sprintf("C06:privileged-method-callable/%s/%s", id, p.name), fmt.Sprintf("%s via %s: ok=%v vmerr=%q changed=%v", id, p.name, res.OK(), res.VMError, d), map[string]interface{}{"engine": "c06-part2", "method": id, "path": p.name})
				}
			}
			// path 4: call data of a received cross-chain packet (execute contract -> target)
			{
				w2 := w.Clone().(*relay.Sys)
				b2 := w2.World().Chains[relay.B]
				a2 := w2.World().Chains[relay.A]
				d := packettypes.CrossChainData{DstChain: relay.A, TokenAddress: common.Address{}, Receiver: strings.ToLower(a2.Accounts["u1"].Eth.String()), Amount: big.NewInt(1),
					ContractAddress: strings.ToLower(t.addr.String()), CallData: payload}
				tx := b2.EthTx(b2.Accounts["u1"], &endpointcontract.EndpointContractAddress, big.NewInt(1), world.CrossChainCallData(d, packettypes.Fee{Amount: big.NewInt(0)}))
				rs := w2.World().Block(b2, tx)
				sent := world.PacketsFromResult(rs[0])
				if !rs[0].OK() || len(sent) != 1 {
					r.Note(fmt.Sprintf("packet path for %s: send failed (%s %s)", id, rs[0].Log, rs[0].VMError))
					continue
				}
				w2.World().Block(b2) // one more block so that the commitment is provable
				w2.World().Block(a2, a2.CosmosTx(a2.Accounts["r1"], world.MsgUpdate(a2, b2, 0, a2.Accounts["r1"])))
				proofKey := hostCommitKey(sent[0].Packet)
				proof, ph, _ := b2.QueryProof(proofKey, int64(a2.ClientLatest(relay.B).RevisionHeight))
				pre := relay.DumpStores(a2)
				rr := w2.World().Block(a2, a2.CosmosTx(a2.Accounts["r1"], packettypes.NewMsgRecvPacket(sent[0].Bytes, proof, ph, a2.Accounts["r1"].Acc)))[0]
				post := relay.DumpStores(a2)
				evals++
				ackOK := false
				for _, e := range world.TypedEventAttr(rr, "xibc.core.packet.v1.EventWriteAck", "ack") {
					var ak packettypes.Acknowledgement
					if ak.ABIDecode(decodeJSONBytes(e)) == nil && ak.Code == 0 {
						ackOK = true
					}
				}
				var evmChanged []string
				for _, x := range relay.DiffStores(pre, post) {
					if strings.HasPrefix(x, "evm:") || strings.HasPrefix(x, "bank:") || strings.HasPrefix(x, "aggregate:") {
						evmChanged = append(evmChanged, x)
					}
				}
				r.Outcome(fmt.Sprintf("call %-40s via %-32s recvAccepted=%v execSucceeded=%v contractStateChanged=%v", id, "call-data-of-a-received-packet", rr.Code == 0, ackOK, len(evmChanged) > 0))
				if rr.Code != 0 {
					r.Note(fmt.Sprintf("packet path for %s: receive rejected: %s", id, rr.Log))
				}
				if ackOK || len(evmChanged) > 0 {
					r.Violation(fmt.Sprintf("C06:privileged-method-callable/%s/packet-call-data", id), fmt.Sprintf("%s from the call data of a received packet: success ack=%v, state changed %v", id, ackOK, evmChanged), map[string]interface{}{"engine": "c06-part2", "method": id, "path": "packet-call-data"})
				}
			}
		}
	}
	return
}

func hostCommitKey(p packettypes.Packet) []byte {
	return []byte(fmt.Sprintf("commitments/%s/%s/sequences/%d", p.SrcChain, p.DstChain, p.Sequence))
}

var _ = sdk.AccAddress{}
