package c06

import (
	"fmt"
	"sort"
	"strings"
	"time"

	sdk "github.com/cosmos/cosmos-sdk/types"

	clientmodule "github.com/teleport-network/teleport/x/xibc/core/client"
	clienttypes "github.com/teleport-network/teleport/x/xibc/core/client/types"

	"verif/internal/checks/c07"
	"verif/internal/ev"
	"verif/internal/world"
)

// Registry: every assignment of chain lists (all ordered sub-lists of {chain-b, chain-c, chain-d}, incl. none) to three
// relayers is registered through the keeper; the registry enumeration (keeper and gRPC query) must list every relayer
// with exactly its own chains and addresses, and after the client module's export and import into a fresh chain every
// relayer is authorised for exactly the chains it was registered for.
func Registry(r *ev.Run) (evals, nontrivial int64) {
	chains := []string{"chain-b", "chain-c", "chain-d"}
	lists := [][]string{nil, {"chain-b"}, {"chain-c"}, {"chain-b", "chain-c"}, {"chain-c", "chain-b"}, {"chain-d", "chain-b", "chain-c"}}
	rel := []world.Account{world.NewAccount("reg-1"), world.NewAccount("reg-2"), world.NewAccount("reg-3")}
	bad := false
	for _, l0 := range lists {
		for _, l1 := range lists {
			for _, l2 := range lists {
				h := c07.NewHost()
				ctx := h.Ctx(time.Unix(1_700_000_000, 0))
				k := h.C.App.XIBCKeeper.ClientKeeper
				want := map[string]string{}
				assigned := [][]string{l0, l1, l2}
				for i, l := range assigned {
					if l == nil {
						continue
					}
					var addrs []string
					for _, c := range l {
						addrs = append(addrs, fmt.Sprintf("%s-on-%s", rel[i].Acc.String()[:12], c))
					}
					k.RegisterRelayers(ctx, rel[i].Acc.String(), l, addrs)
					want[rel[i].Acc.String()] = strings.Join(l, ",") + "|" + strings.Join(addrs, ",")
				}
				evals++
				render := func(rs []clienttypes.IdentifiedRelayer) string {
					var out []string
					for _, ir := range rs {
						out = append(out, ir.Address+"="+strings.Join(ir.Chains, ",")+"|"+strings.Join(ir.Addresses, ","))
					}
					sort.Strings(out)
					return strings.Join(out, " ; ")
				}
				var wl []string
				for a, v := range want {
					wl = append(wl, a+"="+v)
				}
				sort.Strings(wl)
				wantS := strings.Join(wl, " ; ")
				got := render(k.GetAllRelayers(ctx))
				qres, qerr := k.Relayers(sdk.WrapSDKContext(ctx), &clienttypes.QueryRelayersRequest{})
				gotQ := ""
				if qerr == nil {
					gotQ = render(qres.Relayers)
				}
				if !bad && (got != wantS || qerr != nil || gotQ != wantS) {
					bad = true
					r.Violation("C06:registry-enumeration-differs-from-what-was-registered", fmt.Sprintf("registered {%s}; GetAllRelayers lists {%s}; the Relayers query answers {%s} %v", wantS, got, gotQ, qerr), map[string]interface{}{"engine": "c06-registry", "lists": assigned})
				}
				// export / import
				fresh := c07.NewHost()
				fctx := fresh.Ctx(time.Unix(1_700_000_000, 0))
				var pan interface{}
				func() {
					defer func() { pan = recover() }()
					clientmodule.InitGenesis(fctx, fresh.C.App.XIBCKeeper.ClientKeeper, clientmodule.ExportGenesis(ctx, k))
				}()
				for i, l := range assigned {
					for _, c := range chains {
						evals++
						should := false
						for _, x := range l {
							if x == c {
								should = true
							}
						}
						before := k.AuthRelayer(ctx, c, rel[i].Acc.String())
						after := pan == nil && fresh.C.App.XIBCKeeper.ClientKeeper.AuthRelayer(fctx, c, rel[i].Acc.String())
						if should {
							nontrivial++
						}
						if !bad && (before != should || after != should) {
							bad = true
							r.Violation("C06:relayer-authorisation-differs-from-registration", fmt.Sprintf("relayer %d registered for %v (the others: %v): authorised for %s = %v, after export and import into a fresh chain = %v (panic: %v)", i+1, l, assigned, c, before, after, pan), map[string]interface{}{"engine": "c06-registry", "lists": assigned})
						}
					}
				}
			}
		}
	}
	if !bad {
		r.Outcome(fmt.Sprintf("registry enumeration and authorisation after export/import agree with the registrations in %d assignments", len(lists)*len(lists)*len(lists)))
	}
	return
}
