// Package c07 decides C07 (Tendermint light client soundness) by exhaustive
// bounded enumeration of single update steps (validator sets x powers x signer
// subsets x trust levels x height relations x clock boundaries x field
// mutations) and an explicit-state search over update/advance/verify histories,
// against a reference predicate in integer arithmetic. The client keeper of a
// real application is driven on cached contexts.
package c07

import (
	"bytes"
	"fmt"
	"sort"
	"time"

	"github.com/tendermint/tendermint/crypto/tmhash"
	tmproto "github.com/tendermint/tendermint/proto/tendermint/types"
	tmprotoversion "github.com/tendermint/tendermint/proto/tendermint/version"
	tmtypes "github.com/tendermint/tendermint/types"
	"github.com/tendermint/tendermint/version"

	sdk "github.com/cosmos/cosmos-sdk/types"

	xibctmtypes "github.com/teleport-network/teleport/x/xibc/clients/light-clients/tendermint/types"
	clienttypes "github.com/teleport-network/teleport/x/xibc/core/client/types"
	commitmenttypes "github.com/teleport-network/teleport/x/xibc/core/commitment/types"
	"github.com/teleport-network/teleport/x/xibc/core/host"

	"verif/internal/world"
)

const (
	ChainID = "cp-1" // revision 1
	Client  = "cp-1"
	Period  = 1000 * time.Second
	Drift   = 10 * time.Second
)

var T0 = time.Date(2021, 1, 1, 0, 0, 0, 0, time.UTC)

// Val is a validator of the universe.
type Val struct {
	PV    world.PV
	Power int64
}

var universe = func() []world.PV {
	var out []world.PV
	for i := 0; i < 6; i++ {
		out = append(out, world.NewPV(fmt.Sprintf("c07/%d", i)))
	}
	return out
}()

// MakeSet builds a tendermint validator set from (key index, power) pairs.
func MakeSet(idx []int, pow []int64) *tmtypes.ValidatorSet {
	var vs []*tmtypes.Validator
	for i, k := range idx {
		pk, _ := universe[k].GetPubKey()
		vs = append(vs, tmtypes.NewValidator(pk, pow[i]))
	}
	return tmtypes.NewValidatorSet(vs)
}

func pvOf(addr []byte) world.PV {
	for _, pv := range universe {
		pk, _ := pv.GetPubKey()
		if bytes.Equal(pk.Address(), addr) {
			return pv
		}
	}
	panic("unknown validator")
}

// HeaderSpec describes a header to build.
type HeaderSpec struct {
	ChainID   string
	Height    int64
	Time      time.Time
	AppHash   []byte
	Vals      *tmtypes.ValidatorSet
	NextVals  *tmtypes.ValidatorSet
	Signers   map[string]bool // addresses (string(bytes)) that sign
	NilVotes  map[string]bool // addresses voting nil
	WrongKey  map[string]bool // signature produced by another key
	OtherBlk  bool            // commit for another block id
	Trusted   clienttypes.Height
	TrustVals *tmtypes.ValidatorSet
}

// Build creates the header with a hand-made commit (any signer subset).
func Build(s HeaderSpec) *xibctmtypes.Header {
	h := tmtypes.Header{
		Version:            tmprotoversion.Consensus{Block: version.BlockProtocol, App: 2},
		ChainID:            s.ChainID,
		Height:             s.Height,
		Time:               s.Time,
		LastBlockID:        tmtypes.BlockID{Hash: make([]byte, tmhash.Size), PartSetHeader: tmtypes.PartSetHeader{Total: 10000, Hash: make([]byte, tmhash.Size)}},
		LastCommitHash:     tmhash.Sum([]byte("last_commit_hash")),
		DataHash:           tmhash.Sum([]byte("data_hash")),
		ValidatorsHash:     s.Vals.Hash(),
		NextValidatorsHash: s.NextVals.Hash(),
		ConsensusHash:      tmhash.Sum([]byte("consensus_hash")),
		AppHash:            s.AppHash,
		LastResultsHash:    tmhash.Sum([]byte("last_results_hash")),
		EvidenceHash:       tmhash.Sum([]byte("evidence_hash")),
		ProposerAddress:    s.Vals.Proposer.Address,
	}
	blockID := tmtypes.BlockID{Hash: h.Hash(), PartSetHeader: tmtypes.PartSetHeader{Total: 3, Hash: tmhash.Sum([]byte("part_set"))}}
	signID := blockID
	if s.OtherBlk {
		signID = tmtypes.BlockID{Hash: tmhash.Sum([]byte("another block")), PartSetHeader: blockID.PartSetHeader}
	}
	sigs := make([]tmtypes.CommitSig, len(s.Vals.Validators))
	for i, v := range s.Vals.Validators {
		a := string(v.Address)
		switch {
		case s.Signers[a]:
			vote := &tmtypes.Vote{Type: tmproto.PrecommitType, Height: s.Height, Round: 1, BlockID: signID, Timestamp: s.Time, ValidatorAddress: v.Address, ValidatorIndex: int32(i)}
			pv := pvOf(v.Address)
			if s.WrongKey[a] {
				pv = universe[5]
			}
			vp := vote.ToProto()
			if err := pv.SignVote(s.ChainID, vp); err != nil {
				panic(err)
			}
			sigs[i] = tmtypes.CommitSig{BlockIDFlag: tmtypes.BlockIDFlagCommit, ValidatorAddress: v.Address, Timestamp: s.Time, Signature: vp.Signature}
		case s.NilVotes[a]:
			vote := &tmtypes.Vote{Type: tmproto.PrecommitType, Height: s.Height, Round: 1, Timestamp: s.Time, ValidatorAddress: v.Address, ValidatorIndex: int32(i)}
			vp := vote.ToProto()
			pvOf(v.Address).SignVote(s.ChainID, vp)
			sigs[i] = tmtypes.CommitSig{BlockIDFlag: tmtypes.BlockIDFlagNil, ValidatorAddress: v.Address, Timestamp: s.Time, Signature: vp.Signature}
		default:
			sigs[i] = tmtypes.NewCommitSigAbsent()
		}
	}
	commit := tmtypes.NewCommit(s.Height, 1, blockID, sigs)
	vsp, err := s.Vals.ToProto()
	if err != nil {
		panic(err)
	}
	out := &xibctmtypes.Header{
		SignedHeader:  &tmproto.SignedHeader{Header: h.ToProto(), Commit: commit.ToProto()},
		ValidatorSet:  vsp,
		TrustedHeight: s.Trusted,
	}
	if s.TrustVals != nil {
		tv, err := s.TrustVals.ToProto()
		if err != nil {
			panic(err)
		}
		out.TrustedValidators = tv
	}
	return out
}

// Host is the chain that holds the client; contexts are always throw-away branches.
type Host struct {
	C *world.Chain
}

func NewHost() *Host {
	c := world.NewChain("teleport_9000-10", world.StartTime, world.Options{Accounts: []string{"r1"}})
	c.Block(world.StartTime.Add(world.BlockStep))
	return &Host{C: c}
}

// Ctx returns a fresh branch of the committed state at the given block time.
func (h *Host) Ctx(now time.Time) sdk.Context {
	return h.C.ReadCtx().WithBlockTime(now)
}

// ForkW branches a context and returns the function that merges the branch back into its parent.
func ForkW(ctx sdk.Context, now time.Time) (sdk.Context, func()) {
	c, w := ctx.CacheContext()
	return c.WithBlockTime(now), w
}

// Fork branches a context.
func Fork(ctx sdk.Context, now time.Time) sdk.Context {
	c, _ := ctx.CacheContext()
	return c.WithBlockTime(now)
}

// CreateClient installs a tendermint client trusting (height, time, nextVals, appHash).
func (h *Host) CreateClient(ctx sdk.Context, trust xibctmtypes.Fraction, height uint64, ts time.Time, next *tmtypes.ValidatorSet, appHash []byte, delay uint64) {
	cs := xibctmtypes.NewClientState(ChainID, trust, Period, Period*2, Drift, clienttypes.NewHeight(1, height),
		commitmenttypes.GetSDKSpecs(), commitmenttypes.MerklePrefix{KeyPrefix: []byte("xibc")}, delay)
	cons := &xibctmtypes.ConsensusState{Timestamp: ts, Root: appHash, NextValidatorsHash: next.Hash()}
	if err := h.C.App.XIBCKeeper.ClientKeeper.CreateClient(ctx, Client, cs, cons); err != nil {
		panic(err)
	}
}

// CreateClientNamed installs a tendermint client under an arbitrary name / chain id.
func (h *Host) CreateClientNamed(ctx sdk.Context, name, chainID string, height uint64, ts time.Time, next *tmtypes.ValidatorSet, appHash []byte) {
	cs := xibctmtypes.NewClientState(chainID, xibctmtypes.DefaultTrustLevel, Period*1000, Period*2000, Drift, clienttypes.NewHeight(clienttypes.ParseChainID(chainID), height),
		commitmenttypes.GetSDKSpecs(), commitmenttypes.MerklePrefix{KeyPrefix: []byte("xibc")}, 0)
	cons := &xibctmtypes.ConsensusState{Timestamp: ts, Root: appHash, NextValidatorsHash: next.Hash()}
	if err := h.C.App.XIBCKeeper.ClientKeeper.CreateClient(ctx, name, cs, cons); err != nil {
		panic(err)
	}
}

// Update runs the message-level validation and then the real keeper update.
func (h *Host) Update(ctx sdk.Context, hdr *xibctmtypes.Header) error {
	if err := hdr.ValidateBasic(); err != nil {
		return fmt.Errorf("stateless: %w", err)
	}
	return h.C.App.XIBCKeeper.ClientKeeper.UpdateClient(ctx, Client, hdr)
}

// DumpClient returns the raw client store of the client.
func (h *Host) DumpClient(ctx sdk.Context) map[string]string {
	out := map[string]string{}
	st := h.C.App.XIBCKeeper.ClientKeeper.ClientStore(ctx, Client)
	it := st.Iterator(nil, nil)
	defer it.Close()
	for ; it.Valid(); it.Next() {
		out[string(it.Key())] = string(it.Value())
	}
	return out
}

// Model is the reference content of the client store.
type Model struct {
	Latest uint64
	Cons   map[uint64]ModelCons
}

type ModelCons struct {
	Time      time.Time
	Root      []byte
	NextHash  []byte
	Processed time.Time
}

func (m Model) Clone() Model {
	n := Model{Latest: m.Latest, Cons: map[uint64]ModelCons{}}
	for k, v := range m.Cons {
		n.Cons[k] = v
	}
	return n
}

// CompareStore checks that the client store holds exactly the model.
func (h *Host) CompareStore(ctx sdk.Context, m Model) string {
	cdc := h.C.App.AppCodec()
	dump := h.DumpClient(ctx)
	want := map[string]bool{host.KeyClientState: true}
	cs, ok := h.C.App.XIBCKeeper.ClientKeeper.GetClientState(ctx, Client)
	if !ok {
		return "client state missing"
	}
	if got := cs.GetLatestHeight().GetRevisionHeight(); got != m.Latest {
		return fmt.Sprintf("latest height %d, model %d", got, m.Latest)
	}
	var hs []uint64
	for k := range m.Cons {
		hs = append(hs, k)
	}
	sort.Slice(hs, func(i, j int) bool { return hs[i] < hs[j] })
	st := h.C.App.XIBCKeeper.ClientKeeper.ClientStore(ctx, Client)
	for _, k := range hs {
		mc := m.Cons[k]
		hh := clienttypes.NewHeight(1, k)
		got, err := xibctmtypes.GetConsensusState(st, cdc, hh)
		if err != nil {
			return fmt.Sprintf("consensus state %d missing", k)
		}
		if !got.Timestamp.Equal(mc.Time) || !bytes.Equal(got.Root, mc.Root) || !bytes.Equal(got.NextValidatorsHash, mc.NextHash) {
			return fmt.Sprintf("consensus state %d = (%s,%x,%x), model (%s,%x,%x)", k, got.Timestamp, got.Root, got.NextValidatorsHash, mc.Time, mc.Root, mc.NextHash)
		}
		pt, ok := xibctmtypes.GetProcessedTime(st, hh)
		if !ok || pt != uint64(mc.Processed.UnixNano()) {
			return fmt.Sprintf("processed time of %d = %d (found %v), model %d", k, pt, ok, mc.Processed.UnixNano())
		}
		if ik := xibctmtypes.GetIterationKey(st, hh); !bytes.Equal(ik, host.ConsensusStateKey(hh)) {
			return fmt.Sprintf("iteration key of %d = %x", k, ik)
		}
		want[string(host.ConsensusStateKey(hh))] = true
		want[string(xibctmtypes.ProcessedTimeKey(hh))] = true
		want[string(xibctmtypes.IterationKey(hh))] = true
	}
	for k := range dump {
		if !want[k] {
			return fmt.Sprintf("unexpected key %q in client store", k)
		}
	}
	return ""
}
