package c07

import (
	"crypto/sha256"
	"fmt"
	"sort"
	"strings"
	"sync"
	"time"

	tmtypes "github.com/tendermint/tendermint/types"

	sdk "github.com/cosmos/cosmos-sdk/types"

	xibctmtypes "github.com/teleport-network/teleport/x/xibc/clients/light-clients/tendermint/types"
	clienttypes "github.com/teleport-network/teleport/x/xibc/core/client/types"
	"github.com/teleport-network/teleport/x/xibc/core/host"

	"verif/internal/bfs"
	"verif/internal/world"
)

// HistBounds of the update-order search.
type HistBounds struct {
	Depth    int
	Disjoint bool // second validator set disjoint from the first (skipping over the change must fail)
}

// counterparty: a real chain providing real app hashes and ICS-23 proofs; its headers are re-signed by our own sets.
type counterparty struct {
	c        *world.Chain
	commitAt int64 // block in which the commitment was written
	value    []byte
	v1, v2   *tmtypes.ValidatorSet
	times    map[int64]time.Time
}

var (
	cpOnce sync.Once
	cpVal  *counterparty
	hostV  *Host
)

func getCP() (*counterparty, *Host) {
	cpOnce.Do(func() {
		w := world.NewWorld()
		c := w.Add("teleport_9000-11", world.Options{Accounts: []string{"r1"}})
		cp := &counterparty{c: c, times: map[int64]time.Time{}}
		h := sha256.Sum256([]byte("packet"))
		cp.value = h[:]
		for i := 0; i < 10; i++ { // (the C07 searches use heights up to 7; C18 installs at 5 and 8 and back-fills in between)
			if c.Height()+1 == 4 {
				cp.commitAt = 4
				w.Do(c, func(ctx sdk.Context) {
					c.App.XIBCKeeper.PacketKeeper.SetPacketCommitment(ctx, "cp-1", "teleport_9000-10", 1, cp.value)
					// and, in the same block, the acknowledgement of a packet that went the other way
					c.App.XIBCKeeper.PacketKeeper.SetPacketAcknowledgement(ctx, "teleport_9000-10", "cp-1", 1, cp.ackValue())
				})
			} else {
				w.Block(c)
			}
		}
		cp.v1 = MakeSet([]int{0, 1, 2}, []int64{1, 1, 1})
		cpVal = cp
		hostV = NewHost()
	})
	return cpVal, hostV
}

func (cp *counterparty) ackValue() []byte {
	h := sha256.Sum256([]byte("acknowledgement"))
	return h[:]
}

func (cp *counterparty) timeOf(h int64) time.Time { return T0.Add(time.Duration(h-2) * 5 * time.Second) }

func (cp *counterparty) sets(disjoint bool) (v1, v2 *tmtypes.ValidatorSet) {
	v1 = cp.v1
	if disjoint {
		return v1, MakeSet([]int{3, 4}, []int64{1, 1})
	}
	return v1, MakeSet([]int{1, 2, 3}, []int64{1, 1, 1})
}

// valsAt: headers 2,3 are produced by v1 (header 3 announces v2 as next), headers >= 4 by v2.
func (cp *counterparty) valsAt(h int64, disjoint bool) (vals, next *tmtypes.ValidatorSet) {
	v1, v2 := cp.sets(disjoint)
	switch {
	case h <= 2:
		return v1, v1
	case h == 3:
		return v1, v2
	default:
		return v2, v2
	}
}

func (cp *counterparty) header(h int64, trusted uint64, disjoint bool) *xibctmtypes.Header {
	return cp.headerWith(h, trusted, disjoint, cp.c.AppHashAfter[h-1])
}

func (cp *counterparty) headerWith(h int64, trusted uint64, disjoint bool, appHash []byte) *xibctmtypes.Header {
	return cp.headerAt(h, trusted, disjoint, appHash, cp.timeOf(h))
}

func (cp *counterparty) headerAt(h int64, trusted uint64, disjoint bool, appHash []byte, ts time.Time) *xibctmtypes.Header {
	vals, next := cp.valsAt(h, disjoint)
	_, tnext := cp.valsAt(int64(trusted), disjoint)
	signers := map[string]bool{}
	for _, v := range vals.Validators {
		signers[string(v.Address)] = true
	}
	return Build(HeaderSpec{ChainID: ChainID, Height: h, Time: ts, AppHash: appHash, Vals: vals, NextVals: next,
		Signers: signers, Trusted: clienttypes.NewHeight(1, trusted), TrustVals: tnext})
}

// histSys is the live client plus the reference model.
type histSys struct {
	b     HistBounds
	cp    *counterparty
	h     *Host
	ctx   sdk.Context
	now   time.Time
	delay uint64 // ns
	m     Model
	init  bool
	dead  bool
}

func NewHist(b HistBounds) bfs.System {
	cp, h := getCP()
	return &histSys{b: b, cp: cp, h: h}
}

func (s *histSys) Clone() bfs.System {
	n := *s
	n.m = s.m.Clone()
	if s.init {
		n.ctx = Fork(s.ctx, s.now)
	}
	return &n
}

const maxH = 7

func (s *histSys) Ops() []string {
	if !s.init {
		return []string{"init delay=0", "init delay=10s"}
	}
	var out []string
	var stored []uint64
	for k := range s.m.Cons {
		stored = append(stored, k)
	}
	sort.Slice(stored, func(i, j int) bool { return stored[i] < stored[j] })
	for h := int64(2); h <= maxH-1; h++ {
		for _, t := range stored {
			out = append(out, fmt.Sprintf("upd %d %d", h, t))
		}
	}
	// a second, different header for a height (another application hash, validly signed): if accepted it is the one stored
	for _, h := range []int64{3, 4} {
		for _, t := range stored {
			if t < uint64(h) {
				out = append(out, fmt.Sprintf("alt %d %d", h, t))
			}
		}
	}
	// a validly signed header for a height below the head whose block time lies after the head's (a header only has to be
	// newer than the state it trusts): once the head has expired the client accepts nothing, however fresh that state is
	for _, h := range []int64{3, 4} {
		for _, t := range stored {
			if t < uint64(h) && uint64(h) < s.m.Latest {
				out = append(out, fmt.Sprintf("late %d %d", h, t))
			}
		}
	}
	out = append(out, "adv 5s", "adv 10s", "adv to-expiry-1ns", "adv past-expiry")
	for h := int64(2); h <= maxH; h++ {
		out = append(out, fmt.Sprintf("ver %d", h))
	}
	// a proof generated for the latest height, stated under another stored height
	for _, t := range stored {
		if t != s.m.Latest {
			out = append(out, fmt.Sprintf("vermis %d", t))
		}
	}
	return out
}

func (s *histSys) expired(ts time.Time) bool { return !s.now.Before(ts.Add(Period)) }

func (s *histSys) Apply(op string) (obs, class string, viols []bfs.Viol) {
	add := func(sig, d string) { viols = append(viols, bfs.Viol{Sig: "C07:" + sig, Detail: d}) }
	f := strings.Fields(op)
	switch f[0] {
	case "init":
		s.delay = 0
		if f[1] == "delay=10s" {
			s.delay = uint64(10 * time.Second)
		}
		s.now = s.cp.timeOf(2).Add(time.Second)
		s.ctx = s.h.Ctx(s.now)
		_, next := s.cp.valsAt(2, s.b.Disjoint)
		s.h.CreateClient(s.ctx, xibctmtypes.DefaultTrustLevel, 2, s.cp.timeOf(2), next, s.cp.c.AppHashAfter[1], s.delay)
		s.m = Model{Latest: 2, Cons: map[uint64]ModelCons{2: {s.cp.timeOf(2), s.cp.c.AppHashAfter[1], next.Hash(), s.now}}}
		s.init = true
		return "init", "init", nil
	case "adv":
		latest := s.m.Cons[s.m.Latest].Time
		switch f[1] {
		case "5s":
			s.now = s.now.Add(5 * time.Second)
		case "10s":
			s.now = s.now.Add(10 * time.Second)
		case "to-expiry-1ns":
			if t := latest.Add(Period - time.Nanosecond); t.After(s.now) {
				s.now = t
			}
		case "past-expiry":
			if t := latest.Add(Period + time.Nanosecond); t.After(s.now) {
				s.now = t
			}
		}
		s.ctx = s.ctx.WithBlockTime(s.now)
		return "adv", "advance clock", nil
	case "upd", "alt", "late":
		var h int64
		var t uint64
		fmt.Sscan(f[1], &h)
		fmt.Sscan(f[2], &t)
		hdr := s.cp.header(h, t, s.b.Disjoint)
		appHash := s.cp.c.AppHashAfter[h-1]
		hdrTime := s.cp.timeOf(h)
		if f[0] == "late" {
			hdrTime = s.m.Cons[s.m.Latest].Time.Add(2 * time.Nanosecond)
			hdr = s.cp.headerAt(h, t, s.b.Disjoint, appHash, hdrTime)
		}
		if f[0] == "alt" {
			alt := sha256.Sum256(append([]byte("another block at this height/"), appHash...))
			appHash = alt[:]
			hdr = s.cp.headerWith(h, t, s.b.Disjoint, appHash)
		}
		before := s.h.DumpClient(s.ctx)
		trusted, okT := s.m.Cons[t]
		// necessary conditions of the statement
		may := okT && uint64(h) > t && !s.expired(trusted.Time) && hdrTime.Before(s.now.Add(Drift)) && !s.expired(s.m.Cons[s.m.Latest].Time)
		if may && s.b.Disjoint && uint64(h) != t+1 && t < 3 && h >= 4 {
			may = false // skipping over a change to a disjoint set: nobody of the trusted set signed
		}
		// earliest stored state, for the pruning allowance
		var earliest uint64
		for k := range s.m.Cons {
			if earliest == 0 || k < earliest {
				earliest = k
			}
		}
		earliestExpired := s.expired(s.m.Cons[earliest].Time)
		cctx, write := ForkW(s.ctx, s.now)
		err := s.h.Update(cctx, hdr)
		if err != nil {
			class = "update rejected"
			if may {
				class = "update rejected although the statement's conditions hold (liveness; informational)"
			}
			after := s.h.DumpClient(cctx)
			if len(world.DiffStores(before, after)) > 0 {
				add("rejected-update-changed-store", fmt.Sprintf("upd %d trusting %d rejected (%v) but store changed %v", h, t, err, world.DiffStores(before, after)))
			}
			return "rejected", class, viols
		}
		write()
		class = "update accepted"
		if uint64(h) < s.m.Latest {
			class += " (back-fill)"
		} else if uint64(h) > t+1 {
			class += " (skipping)"
		}
		if !may {
			add("update-accepted-against-statement", fmt.Sprintf("upd %d trusting %d accepted at now=%s: trusted stored=%v, trusted time=%s, latest time=%s, header time=%s", h, t, s.now, okT, trusted.Time, s.m.Cons[s.m.Latest].Time, hdrTime))
		}
		_, next := s.cp.valsAt(h, s.b.Disjoint)
		if earliestExpired && earliest != uint64(h) {
			// pruning of the oldest expired state is allowed, not required
			st := s.h.C.App.XIBCKeeper.ClientKeeper.ClientStore(s.ctx, Client)
			if !st.Has(host.ConsensusStateKey(clienttypes.NewHeight(1, earliest))) {
				delete(s.m.Cons, earliest)
				class += " +pruned"
			}
		}
		s.m.Cons[uint64(h)] = ModelCons{hdrTime, appHash, next.Hash(), s.now}
		if uint64(h) > s.m.Latest {
			s.m.Latest = uint64(h)
		}
		return "accepted", class, viols
	case "vermis":
		var h int64
		fmt.Sscan(f[1], &h)
		proof, _, _ := s.cp.c.QueryProof(host.PacketCommitmentKey("cp-1", "teleport_9000-10", 1), int64(s.m.Latest))
		cs, _ := s.h.C.App.XIBCKeeper.ClientKeeper.GetClientState(s.ctx, Client)
		st := s.h.C.App.XIBCKeeper.ClientKeeper.ClientStore(s.ctx, Client)
		err := cs.VerifyPacketCommitment(s.ctx, st, s.h.C.App.AppCodec(), clienttypes.NewHeight(1, uint64(h)), proof, "cp-1", "teleport_9000-10", 1, s.cp.value)
		sameRoot := string(s.m.Cons[uint64(h)].Root) == string(s.m.Cons[s.m.Latest].Root)
		if err == nil && !sameRoot {
			add("proof-for-another-height-honoured", fmt.Sprintf("a proof generated for the latest height %d is honoured under the stated height %d, whose stored root is a different one", s.m.Latest, h))
		}
		class = "proof of the latest height under another stated height refused"
		if err == nil {
			class = "proof of the latest height under another stated height honoured"
		}
		return class, class, viols
	case "ver":
		var h int64
		fmt.Sscan(f[1], &h)
		proof, ph, _ := s.cp.c.QueryProof(host.PacketCommitmentKey("cp-1", "teleport_9000-10", 1), h)
		ph = clienttypes.NewHeight(1, uint64(h))
		cs, _ := s.h.C.App.XIBCKeeper.ClientKeeper.GetClientState(s.ctx, Client)
		st := s.h.C.App.XIBCKeeper.ClientKeeper.ClientStore(s.ctx, Client)
		err := cs.VerifyPacketCommitment(s.ctx, st, s.h.C.App.AppCodec(), ph, proof, "cp-1", "teleport_9000-10", 1, s.cp.value)
		mc, stored := s.m.Cons[uint64(h)]
		genuine := h-1 >= s.cp.commitAt && (!stored0(s, h) || string(s.m.Cons[uint64(h)].Root) == string(s.cp.c.AppHashAfter[h-1]))
		delayOK := stored && !s.now.Before(mc.Processed.Add(time.Duration(s.delay)))
		may := stored && uint64(h) <= s.m.Latest && delayOK && genuine
		if err == nil {
			class = "proof honoured"
			if !may {
				add("proof-honoured-against-statement", fmt.Sprintf("ver %d honoured: stored=%v latest=%d delayPassed=%v genuine=%v now=%s processed=%s delay=%s", h, stored, s.m.Latest, delayOK, genuine, s.now, mc.Processed, time.Duration(s.delay)))
			}
		} else {
			class = fmt.Sprintf("proof refused (stored=%v delayPassed=%v genuine=%v)", stored, delayOK, genuine)
			if may {
				class = "genuine proof refused (informational)"
			}
		}
		// the acknowledgement written in the same block: its proof is honoured under exactly the same conditions
		aproof, _, _ := s.cp.c.QueryProof(host.PacketAcknowledgementKey("teleport_9000-10", "cp-1", 1), h)
		aerr := cs.VerifyPacketAcknowledgement(s.ctx, st, s.h.C.App.AppCodec(), ph, aproof, "teleport_9000-10", "cp-1", 1, s.cp.ackValue())
		if aerr == nil && !may {
			add("proof-honoured-against-statement", fmt.Sprintf("ver %d: acknowledgement proof honoured: stored=%v latest=%d delayPassed=%v genuine=%v now=%s processed=%s delay=%s", h, stored, s.m.Latest, delayOK, genuine, s.now, mc.Processed, time.Duration(s.delay)))
		}
		if (aerr == nil) != (err == nil) {
			class += " / acknowledgement proof treated differently"
			if aerr == nil || may {
				add("acknowledgement-proof-treated-differently-from-commitment-proof", fmt.Sprintf("ver %d: commitment proof err=%v, acknowledgement proof err=%v (same block, same height, same delay)", h, err, aerr))
			}
		}
		return class, class, viols
	}
	panic("bad op " + op)
}

func (s *histSys) Key() string {
	if !s.init {
		return "pre"
	}
	var ks []string
	for k, v := range s.m.Cons {
		// relative age of the processed time matters only against the delay; bucket it
		age := "old"
		if s.now.Before(v.Processed.Add(time.Duration(s.delay))) {
			age = "fresh"
		}
		exp := ""
		if s.expired(v.Time) {
			exp = "x"
		}
		alt := ""
		if int64(k) >= 1 && string(v.Root) != string(s.cp.c.AppHashAfter[int64(k)-1]) {
			alt = "a" // holds the other block's application hash
		}
		if !v.Time.Equal(s.cp.timeOf(int64(k))) {
			alt += "l" // stored from a header whose block time lies after the head's: it expires later than the head
		}
		ks = append(ks, fmt.Sprintf("%d%s%s%s", k, age[:1], exp, alt))
	}
	sort.Strings(ks)
	// clock bucket: distance classes to the next interesting instants
	latest := s.m.Cons[s.m.Latest].Time
	bucket := "live"
	switch {
	case s.expired(latest):
		bucket = "expired"
	case !s.now.Before(latest.Add(Period - time.Nanosecond)):
		bucket = "edge"
	}
	// which counterparty headers are still in the future beyond the drift
	fut := 0
	for h := int64(2); h < maxH; h++ {
		if !s.cp.timeOf(h).Before(s.now.Add(Drift)) {
			fut++
		}
	}
	return fmt.Sprintf("d=%d|%s|L=%d|%s|fut=%d", s.delay, strings.Join(ks, ","), s.m.Latest, bucket, fut)
}

func stored0(s *histSys, h int64) bool { _, ok := s.m.Cons[uint64(h)]; return ok }

func (s *histSys) Check() []bfs.Viol {
	if !s.init {
		return nil
	}
	if d := s.h.CompareStore(s.ctx, s.m); d != "" {
		return []bfs.Viol{{Sig: "C07:client-store-differs-from-model", Detail: d}}
	}
	return nil
}

// ---- exported access to the counterparty fixture (used by C18) ----

// CP is the real counterparty chain whose headers are re-signed by the harness's own validator sets.
type CP struct{ cp *counterparty }

// GetCP returns the shared counterparty and host.
func GetCP() (CP, *Host) {
	cp, h := getCP()
	return CP{cp}, h
}

// Header returns the signed header of height h trusting the given stored height.
func (c CP) Header(h int64, trusted uint64) *xibctmtypes.Header { return c.cp.header(h, trusted, false) }

// Cons returns the consensus state a client must hold for height h.
func (c CP) Cons(h int64) *xibctmtypes.ConsensusState {
	_, next := c.cp.valsAt(h, false)
	return &xibctmtypes.ConsensusState{Timestamp: c.cp.timeOf(h), Root: c.cp.c.AppHashAfter[h-1], NextValidatorsHash: next.Hash()}
}

// TimeOf is the header time of height h.
func (c CP) TimeOf(h int64) time.Time { return c.cp.timeOf(h) }

// Proof returns the ICS-23 proof of the fixture commitment as seen at header height h, and the committed value.
func (c CP) Proof(h int64) ([]byte, []byte) {
	p, _, _ := c.cp.c.QueryProof(host.PacketCommitmentKey("cp-1", "teleport_9000-10", 1), h)
	return p, c.cp.value
}

// CommitAt is the block that wrote the fixture commitment.
func (c CP) CommitAt() int64 { return c.cp.commitAt }
