package c07

import (
	"fmt"
	"time"

	tmtypes "github.com/tendermint/tendermint/types"

	xibctmtypes "github.com/teleport-network/teleport/x/xibc/clients/light-clients/tendermint/types"
	clienttypes "github.com/teleport-network/teleport/x/xibc/core/client/types"

	"verif/internal/ev"
)

type setSpec struct {
	idx []int
	pow []int64
}

func (s setSpec) String() string { return fmt.Sprintf("keys%v/pow%v", s.idx, s.pow) }

// allSets enumerates all non-empty subsets of keys 0..n-1 with all power assignments from pows.
func allSets(n int, pows []int64) []setSpec {
	var out []setSpec
	for mask := 1; mask < 1<<n; mask++ {
		var idx []int
		for i := 0; i < n; i++ {
			if mask&(1<<i) != 0 {
				idx = append(idx, i)
			}
		}
		total := 1
		for range idx {
			total *= len(pows)
		}
		for c := 0; c < total; c++ {
			p := make([]int64, len(idx))
			x := c
			for i := range idx {
				p[i] = pows[x%len(pows)]
				x /= len(pows)
			}
			out = append(out, setSpec{idx, p})
		}
	}
	return out
}

type frac struct{ n, d int64 }

// headerVariants derives the header's own validator set from the trusted-next set.
func headerVariants(t setSpec, n int) map[string]setSpec {
	out := map[string]setSpec{"same": t}
	op := make([]int64, len(t.pow))
	for i, p := range t.pow {
		op[i] = p%3 + 1
	}
	out["otherpowers"] = setSpec{t.idx, op}
	ri := append([]int{}, t.idx...)
	ri[len(ri)-1] = n // a key outside the universe of T (index n)
	out["onereplaced"] = setSpec{ri, t.pow}
	var di []int
	var dp []int64
	for i := range t.idx {
		di = append(di, n+i%2) // disjoint keys n, n+1
		dp = append(dp, t.pow[i])
		if i >= 1 {
			break
		}
	}
	out["disjoint"] = setSpec{di, dp}
	return out
}

// Single runs the exhaustive single-step enumeration.
// heightOrder: the ordering of heights every rule of the statement rests on ("newer than", "never lowers", "not above
// the latest") is lexicographic in (revision, height); all comparison methods are checked against that definition on a grid
// of revision numbers and heights in which the two coordinates disagree.
func heightOrder(r *ev.Run) (evals int64) {
	grid := []uint64{0, 1, 2, 5, 110, 1<<63 - 1, 1 << 63, 1<<64 - 1}
	sign := func(x int64) int {
		switch {
		case x < 0:
			return -1
		case x > 0:
			return 1
		}
		return 0
	}
	for _, r1 := range grid {
		for _, h1 := range grid {
			for _, r2 := range grid {
				for _, h2 := range grid {
					a, b := clienttypes.NewHeight(r1, h1), clienttypes.NewHeight(r2, h2)
					want := 0
					switch {
					case r1 < r2 || (r1 == r2 && h1 < h2):
						want = -1
					case r1 > r2 || (r1 == r2 && h1 > h2):
						want = 1
					}
					evals++
					got := []bool{sign(a.Compare(b)) == want, a.LT(b) == (want < 0), a.LTE(b) == (want <= 0), a.GT(b) == (want > 0), a.GTE(b) == (want >= 0), a.EQ(b) == (want == 0)}
					for i, ok := range got {
						if !ok {
							r.Violation("C07:height-order-not-lexicographic/"+[]string{"Compare", "LT", "LTE", "GT", "GTE", "EQ"}[i], fmt.Sprintf("%s vs %s: want sign %d", a, b, want), map[string]interface{}{"engine": "c07-heights", "a": a.String(), "b": b.String()})
						}
					}
				}
			}
		}
	}
	r.Outcome("height order is lexicographic in (revision, height)")
	return
}

func Single(r *ev.Run, tier string) (evals, nontrivial int64) {
	evals += heightOrder(r)
	n := 3
	if tier == "thorough" {
		n = 4
	}
	pows := []int64{1, 2, 3}
	h := NewHost()
	trusts := []frac{{1, 3}, {1, 2}, {2, 3}}
	distinct := map[string]bool{}
	tsets := allSets(n, pows)
	appHash := []byte("app-hash-of-header")
	for _, ts := range tsets {
		T := MakeSet(ts.idx, ts.pow)
		for _, tl := range trusts {
			base := h.Ctx(T0)
			h.CreateClient(base, xibctmtypes.Fraction{Numerator: uint64(tl.n), Denominator: uint64(tl.d)}, 10, T0, T, []byte("root10"), 0)
			model0 := Model{Latest: 10, Cons: map[uint64]ModelCons{10: {T0, []byte("root10"), T.Hash(), T0}}}
			for vname, hs := range headerVariants(ts, n) {
				H := MakeSet(hs.idx, hs.pow)
				for _, rel := range []string{"adjacent", "skipping"} {
					height := int64(11)
					if rel == "skipping" {
						height = 13
					}
					for mask := 0; mask < 1<<len(H.Validators); mask++ {
						signers := map[string]bool{}
						var signedH, signedT int64
						for i, v := range H.Validators {
							if mask&(1<<i) != 0 {
								signers[string(v.Address)] = true
								signedH += v.VotingPower
								if _, tv := T.GetByAddress(v.Address); tv != nil {
									signedT += tv.VotingPower
								}
							}
						}
						now := T0.Add(6 * time.Second)
						hdr := Build(HeaderSpec{ChainID: ChainID, Height: height, Time: T0.Add(5 * time.Second), AppHash: appHash, Vals: H, NextVals: H,
							Signers: signers, Trusted: clienttypes.NewHeight(1, 10), TrustVals: T})
						// reference (necessary conditions of the statement)
						okT := signedT*tl.d > T.TotalVotingPower()*tl.n
						okH := signedH*3 > H.TotalVotingPower()*2
						mayAccept := okT && okH
						ctx := Fork(base, now)
						err := h.Update(ctx, hdr)
						evals++
						cls := fmt.Sprintf("%s/%s/trustOK=%v/twoThirdsOK=%v/accepted=%v", rel, vname, okT, okH, err == nil)
						r.Outcome("single " + cls)
						key := fmt.Sprintf("%s|%s|%d/%d|%s|%d", ts, vname, tl.n, tl.d, rel, mask)
						if !distinct[key] && mask != 0 && mask != 1<<len(H.Validators)-1 {
							distinct[key] = true
							nontrivial++
						}
						desc := map[string]interface{}{"trusted_next_set": ts.String(), "header_set": vname + " " + hs.String(), "trust_level": fmt.Sprintf("%d/%d", tl.n, tl.d), "relation": rel, "signer_mask": mask, "signed_power_in_trusted": signedT, "signed_power_in_header_set": signedH}
						if evals%977 == 1 {
							r.Sample(desc)
						}
						if err == nil {
							if !mayAccept {
								r.Violation("C07:undersigned-header-accepted/"+rel, fmt.Sprintf("header accepted although signers hold %d/%d of the trusted set (trust level %d/%d) and %d/%d of its own set (need > 2/3): %v", signedT, T.TotalVotingPower(), tl.n, tl.d, signedH, H.TotalVotingPower(), desc), map[string]interface{}{"engine": "c07-single", "case": desc})
							}
							m := model0.Clone()
							m.Latest = uint64(height)
							m.Cons[uint64(height)] = ModelCons{T0.Add(5 * time.Second), appHash, H.Hash(), now}
							if d := h.CompareStore(ctx, m); d != "" {
								r.Violation("C07:accepted-header-stored-wrong-state", d+fmt.Sprintf(" %v", desc), map[string]interface{}{"engine": "c07-single", "case": desc})
							}
						} else {
							if d := h.CompareStore(ctx, model0); d != "" {
								r.Violation("C07:rejected-header-changed-client-store", d+fmt.Sprintf(" %v", desc), map[string]interface{}{"engine": "c07-single", "case": desc})
							}
						}
					}
				}
			}
		}
	}
	e2, n2 := clockAndMutations(r, h)
	return evals + e2, nontrivial + n2
}

// clockAndMutations: both sides of every time boundary and single-field mutations of one valid configuration.
func clockAndMutations(r *ev.Run, h *Host) (evals, nontrivial int64) {
	T := MakeSet([]int{0, 1, 2}, []int64{1, 1, 1})
	all := map[string]bool{}
	for _, v := range T.Validators {
		all[string(v.Address)] = true
	}
	two := map[string]bool{string(T.Validators[0].Address): true, string(T.Validators[1].Address): true}
	type tc struct {
		name       string
		setup      func() (ctxNow time.Time, spec HeaderSpec, oldTrust bool)
		mustReject bool
		dontCare   bool
	}
	ns := time.Nanosecond
	mk := func(height int64, th time.Time) HeaderSpec {
		return HeaderSpec{ChainID: ChainID, Height: height, Time: th, AppHash: []byte("ah"), Vals: T, NextVals: T, Signers: all, Trusted: clienttypes.NewHeight(1, 10), TrustVals: T}
	}
	var cases []tc
	for _, rel := range []int64{11, 13} {
		rel := rel
		add := func(name string, now, th time.Time, mustReject, dontCare bool) {
			cases = append(cases, tc{fmt.Sprintf("h%d/%s", rel, name), func() (time.Time, HeaderSpec, bool) { return now, mk(rel, th), false }, mustReject, dontCare})
		}
		// trusting period of the trusted state: expired iff now >= Tt + period (equality is the boundary: don't care)
		add("trusted-age=period-1ns", T0.Add(Period-ns), T0.Add(Period-time.Second), false, false)
		add("trusted-age=period", T0.Add(Period), T0.Add(Period-time.Second), false, true)
		add("trusted-age=period+1ns", T0.Add(Period+ns), T0.Add(Period-time.Second), true, false)
		// header time against now + drift
		now := T0.Add(100 * time.Second)
		add("header-time=now+drift-1ns", now, now.Add(Drift-ns), false, false)
		add("header-time=now+drift", now, now.Add(Drift), false, true)
		add("header-time=now+drift+1ns", now, now.Add(Drift+ns), true, false)
		// header time against trusted time (the statement is silent: informational)
		add("header-time=trusted-time", now, T0, false, true)
		add("header-time=trusted-time+1ns", now, T0.Add(ns), false, false)
		mut := func(name string, f func(s *HeaderSpec), mustReject bool) {
			cases = append(cases, tc{fmt.Sprintf("h%d/mut-%s", rel, name), func() (time.Time, HeaderSpec, bool) {
				s := mk(rel, T0.Add(5*time.Second))
				f(&s)
				return T0.Add(6 * time.Second), s, false
			}, mustReject, false})
		}
		mut("none", func(s *HeaderSpec) {}, false)
		mut("other-revision-chain-id", func(s *HeaderSpec) { s.ChainID = "cp-2" }, true)
		mut("other-chain-id", func(s *HeaderSpec) { s.ChainID = "xx-1" }, true)
		mut("trusted-validators-not-stored-hash", func(s *HeaderSpec) { s.TrustVals = MakeSet([]int{0, 1, 3}, []int64{1, 1, 1}) }, true)
		mut("trusted-validators-other-powers", func(s *HeaderSpec) { s.TrustVals = MakeSet([]int{0, 1, 2}, []int64{1, 1, 2}) }, true)
		mut("commit-for-another-block", func(s *HeaderSpec) { s.OtherBlk = true }, true)
		mut("two-of-three-sign-one-by-wrong-key", func(s *HeaderSpec) {
			s.WrongKey = map[string]bool{string(T.Validators[0].Address): true}
		}, true) // an invalid signature is not a signature; tendermint rejects the whole commit
		mut("two-sign-third-votes-nil", func(s *HeaderSpec) {
			s.Signers = two
			s.NilVotes = map[string]bool{string(T.Validators[2].Address): true}
		}, true)
		mut("height-equal-trusted", func(s *HeaderSpec) { s.Height = 10 }, true)
		mut("height-below-trusted", func(s *HeaderSpec) { s.Height = 9 }, true)
		mut("trusted-height-not-stored", func(s *HeaderSpec) { s.Trusted = clienttypes.NewHeight(1, 9) }, true)
		mut("trusted-height-other-revision", func(s *HeaderSpec) { s.Trusted = clienttypes.NewHeight(2, 10) }, true)
	}
	for _, c := range cases {
		base := h.Ctx(T0)
		h.CreateClient(base, xibctmtypes.DefaultTrustLevel, 10, T0, T, []byte("root10"), 0)
		now, spec, _ := c.setup()
		ctx := Fork(base, now)
		err := h.Update(ctx, Build(spec))
		evals++
		nontrivial++
		r.Outcome(fmt.Sprintf("boundary/mutation %s accepted=%v", c.name, err == nil))
		if err == nil && c.mustReject && !c.dontCare {
			r.Violation("C07:invalid-header-accepted/"+c.name, fmt.Sprintf("case %s accepted", c.name), map[string]interface{}{"engine": "c07-single", "case": c.name})
		}
		if err != nil && !c.mustReject && !c.dontCare {
			r.Note(fmt.Sprintf("valid case %s rejected: %v (liveness, not decided by C07)", c.name, err))
			r.Outcome("valid-case-rejected " + c.name)
		}
	}
	// expired client: latest consensus state older than the trusting period => nothing is accepted,
	// and a trusted (older) state outside the trusting period cannot be used even if the latest is fresh
	{
		base := h.Ctx(T0)
		h.CreateClient(base, xibctmtypes.DefaultTrustLevel, 10, T0, T, []byte("root10"), 0)
		// bring latest to 20 at time T0+600s
		c1 := Fork(base, T0.Add(601*time.Second))
		s := mk(20, T0.Add(600*time.Second))
		if err := h.Update(c1, Build(s)); err != nil {
			panic("setup update failed: " + err.Error())
		}
		for _, x := range []struct {
			name    string
			now     time.Duration
			trusted uint64
			height  int64
			must    bool
		}{
			{"trust-old-state-expired-latest-fresh", 1000*time.Second + ns, 10, 15, true},
			{"trust-old-state-just-alive", 1000*time.Second - ns, 10, 15, false},
			{"latest-expired-everything-rejected", 1600*time.Second + ns, 20, 25, true},
			{"latest-just-alive", 1600*time.Second - ns, 20, 25, false},
		} {
			now := T0.Add(x.now)
			sp := mk(x.height, now.Add(-time.Second))
			sp.Trusted = clienttypes.NewHeight(1, x.trusted)
			ctx := Fork(c1, now)
			err := h.Update(ctx, Build(sp))
			evals++
			nontrivial++
			r.Outcome(fmt.Sprintf("expiry %s accepted=%v", x.name, err == nil))
			if err == nil && x.must {
				r.Violation("C07:expired-state-trusted/"+x.name, x.name+" accepted", map[string]interface{}{"engine": "c07-single", "case": x.name})
			}
		}
	}
	return
}

var _ = tmtypes.MaxTotalVotingPower
