// Package c08 decides C08: EVM storage proofs bind contract, slot, value, root
// and height — exhaustive bounded enumeration of small state worlds x queries x
// proof mutations against an oracle recomputed from the tries the generator
// owns, for the ETH and the BSC client.
package c08

import (
	"bytes"
	"crypto/sha256"
	"encoding/json"
	"fmt"
	"math/big"
	"sort"
	"strings"
	"time"

	"github.com/ethereum/go-ethereum/common"
	"github.com/ethereum/go-ethereum/crypto"
	"github.com/ethereum/go-ethereum/ethdb/memorydb"
	"github.com/ethereum/go-ethereum/rlp"
	"github.com/ethereum/go-ethereum/trie"

	sdk "github.com/cosmos/cosmos-sdk/types"

	bsctypes "github.com/teleport-network/teleport/x/xibc/clients/light-clients/bsc/types"
	ethclient "github.com/teleport-network/teleport/x/xibc/clients/light-clients/eth/types"
	clienttypes "github.com/teleport-network/teleport/x/xibc/core/client/types"
	"github.com/teleport-network/teleport/x/xibc/core/host"
	"github.com/teleport-network/teleport/x/xibc/exported"

	"verif/internal/checks/c07"
	"verif/internal/ev"
)

var (
	addrX   = common.HexToAddress("0x0000000000000000000000000000000020000001") // configured XIBC contract
	addrY   = common.HexToAddress("0x00000000000000000000000000000000deadbeef") // another contract
	addrEOA = common.HexToAddress("0x1111111111111111111111111111111111111111")
)

const (
	src = "Eth-CP" // (mixed case on purpose: names are case-sensitive and part of the slot derivation)
	dst = "teleport_9000-10"
)

// slot is keccak(path ‖ uint256(208)) — the mapping slot of the packet contract (the generator's own definition).
func slotOf(kind string, seq uint64) common.Hash {
	var path []byte
	if kind == "commit" {
		path = host.PacketCommitmentKey(src, dst, seq)
	} else {
		path = host.PacketAcknowledgementKey(src, dst, seq)
	}
	return crypto.Keccak256Hash(path, common.LeftPadBytes(big.NewInt(208).Bytes(), 32))
}

// zSeq: per kind the first sequence (> 1) whose slot hash starts with a zero byte — the "second" sequence of every
// query, so that slots with a leading zero are derived, proven and compared too.
var zSeq = func() map[string]uint64 {
	out := map[string]uint64{}
	for _, kind := range []string{"commit", "ack"} {
		for q := uint64(2); ; q++ {
			if slotOf(kind, q)[0] == 0 {
				out[kind] = q
				break
			}
		}
	}
	return out
}()

var slotNames = []string{"commit#1", "ack#1", "commit#2", "ack#2", "unrelated"}

func slotByName(n string) common.Hash {
	if strings.HasPrefix(n, "filler/") {
		return crypto.Keccak256Hash([]byte(n))
	}
	switch n {
	case "commit#1":
		return slotOf("commit", 1)
	case "ack#1":
		return slotOf("ack", 1)
	case "commit#2":
		return slotOf("commit", zSeq["commit"])
	case "ack#2":
		return slotOf("ack", zSeq["ack"])
	}
	return crypto.Keccak256Hash([]byte("unrelated slot"))
}

// values: a plain hash, hashes with one and two leading zero bytes, another hash
var values = func() map[string][]byte {
	h1 := sha256.Sum256([]byte("packet one"))
	h2 := sha256.Sum256([]byte("packet two"))
	z1 := sha256.Sum256([]byte("z1"))
	z1[0] = 0
	z2 := sha256.Sum256([]byte("z2"))
	z2[0], z2[1] = 0, 0
	return map[string][]byte{"h1": h1[:], "hz1": z1[:], "hz2": z2[:], "h2": h2[:]}
}()

var valueNames = []string{"h1", "hz1", "hz2", "h2"}

// account of a state world.
type account struct {
	Nonce    uint64
	Balance  *big.Int
	Storage  map[string]string // slot name -> value name
	CodeHash common.Hash
}

type stateWorld struct {
	Accounts map[common.Address]*account
	root     common.Hash
	st       *trie.Trie
	stor     map[common.Address]*trie.Trie
}

type rlpAccount struct {
	Nonce    *big.Int
	Balance  *big.Int
	Storage  common.Hash
	Codehash common.Hash
}

func newTrie() *trie.Trie {
	t, err := trie.New(common.Hash{}, trie.NewDatabase(memorydb.New()))
	if err != nil {
		panic(err)
	}
	return t
}

func (w *stateWorld) build() {
	w.st = newTrie()
	w.stor = map[common.Address]*trie.Trie{}
	for a, acc := range w.Accounts {
		t := newTrie()
		for sn, vn := range acc.Storage {
			v := values[vn]
			enc, _ := rlp.EncodeToBytes(bytes.TrimLeft(v, "\x00"))
			t.Update(crypto.Keccak256(slotByName(sn).Bytes()), enc)
		}
		w.stor[a] = t
		enc, _ := rlp.EncodeToBytes(&rlpAccount{new(big.Int).SetUint64(acc.Nonce), acc.Balance, t.Hash(), acc.CodeHash})
		w.st.Update(crypto.Keccak256(a.Bytes()), enc)
	}
	w.root = w.st.Hash()
}

type nodeList struct{ nodes [][]byte }

func (n *nodeList) Put(key, value []byte) error {
	n.nodes = append(n.nodes, append([]byte{}, value...))
	return nil
}
func (n *nodeList) Delete(key []byte) error { return nil }

func prove(t *trie.Trie, key []byte) [][]byte {
	var nl nodeList
	if err := t.Prove(key, 0, &nl); err != nil {
		panic(err)
	}
	return nl.nodes
}

// jsonProof is the relayer-side proof object (eth_getProof shape).
type jsonProof struct {
	Address      string        `json:"address"`
	Balance      string        `json:"balance"`
	CodeHash     string        `json:"code_hash"`
	Nonce        string        `json:"nonce"`
	StorageHash  string        `json:"storage_hash"`
	AccountProof []string      `json:"account_proof"`
	StorageProof []jsonStorage `json:"storage_proof"`
}

type jsonStorage struct {
	Key   string   `json:"key"`
	Value string   `json:"value"`
	Proof []string `json:"proof"`
}

func hexes(nodes [][]byte) []string {
	var out []string
	for _, n := range nodes {
		out = append(out, "0x"+common.Bytes2Hex(n))
	}
	return out
}

// honest builds the proof a relayer would fetch for (address, slot) in world w (works for absent accounts/slots too).
func honest(w *stateWorld, addr common.Address, slot common.Hash) jsonProof {
	p := jsonProof{Address: addr.Hex(), Balance: "0x0", Nonce: "0x0", CodeHash: common.Hash{}.Hex(), StorageHash: common.Hash{}.Hex()}
	p.AccountProof = hexes(prove(w.st, crypto.Keccak256(addr.Bytes())))
	st := newTrie()
	if acc, ok := w.Accounts[addr]; ok {
		p.Balance = "0x" + acc.Balance.Text(16)
		p.Nonce = fmt.Sprintf("0x%x", acc.Nonce)
		p.CodeHash = acc.CodeHash.Hex()
		st = w.stor[addr]
		p.StorageHash = st.Hash().Hex()
	}
	p.StorageProof = []jsonStorage{{Key: slot.Hex(), Value: "0x0", Proof: hexes(prove(st, crypto.Keccak256(slot.Bytes())))}}
	return p
}

// query is one verification request.
type query struct {
	Kind   string
	Seq    uint64
	Value  string
	Height uint64
}

// setting is the client configuration around the worlds.
type setting struct {
	Head  uint64
	Delay uint64
}

var mutations = []string{"none", "account-proof-of-Y", "address-Y-with-Y-proof", "address-EOA", "address-upper-case-no-prefix", "storage-proof-of-other-slot", "key-field-other-slot",
	"key-field-short-form", "storage-value-field-altered", "proof-from-other-height", "drop-first-account-node", "drop-last-account-node", "drop-first-storage-node", "drop-last-storage-node",
	"drop-middle-storage-node", "flip-byte-in-last-storage-node", "storage-hash-altered", "code-hash-altered", "nonce-altered", "balance-altered", "no-storage-proof", "extra-unused-nodes", "empty-account-proof", "forged-storage-trie"}

// mutate applies a mutation to the honest proof of (X, slot) at world w; other is the world of the other height.
func mutate(m string, w, other *stateWorld, slot common.Hash, p jsonProof, queried []byte) jsonProof {
	cp := p
	cp.AccountProof = append([]string{}, p.AccountProof...)
	cp.StorageProof = nil
	for _, s := range p.StorageProof {
		cp.StorageProof = append(cp.StorageProof, jsonStorage{s.Key, s.Value, append([]string{}, s.Proof...)})
	}
	sp := func() *jsonStorage { return &cp.StorageProof[0] }
	otherSlot := slotByName("unrelated")
	if slot == otherSlot {
		otherSlot = slotByName("commit#2")
	}
	switch m {
	case "none":
	case "account-proof-of-Y":
		y := honest(w, addrY, slot)
		cp.AccountProof, cp.Balance, cp.Nonce, cp.CodeHash, cp.StorageHash = y.AccountProof, y.Balance, y.Nonce, y.CodeHash, y.StorageHash
		cp.StorageProof = y.StorageProof
	case "address-Y-with-Y-proof":
		cp = honest(w, addrY, slot)
	case "address-EOA":
		cp = honest(w, addrEOA, slot)
	case "address-upper-case-no-prefix":
		cp.Address = strings.ToUpper(strings.TrimPrefix(addrX.Hex(), "0x"))
	case "storage-proof-of-other-slot":
		o := honest(w, addrX, otherSlot)
		sp().Proof = o.StorageProof[0].Proof
	case "key-field-other-slot":
		sp().Key = otherSlot.Hex()
	case "key-field-short-form":
		sp().Key = "0x" + strings.TrimLeft(strings.TrimPrefix(slot.Hex(), "0x"), "0")
	case "storage-value-field-altered":
		sp().Value = "0xdeadbeef"
	case "proof-from-other-height":
		cp = honest(other, addrX, slot)
	case "drop-first-account-node":
		if len(cp.AccountProof) > 0 {
			cp.AccountProof = cp.AccountProof[1:]
		}
	case "drop-last-account-node":
		if len(cp.AccountProof) > 0 {
			cp.AccountProof = cp.AccountProof[:len(cp.AccountProof)-1]
		}
	case "drop-first-storage-node":
		if len(sp().Proof) > 0 {
			sp().Proof = sp().Proof[1:]
		}
	case "drop-last-storage-node":
		if len(sp().Proof) > 0 {
			sp().Proof = sp().Proof[:len(sp().Proof)-1]
		}
	case "drop-middle-storage-node":
		if n := len(sp().Proof); n > 2 {
			sp().Proof = append(append([]string{}, sp().Proof[:n/2]...), sp().Proof[n/2+1:]...)
		}
	case "flip-byte-in-last-storage-node":
		if n := len(sp().Proof); n > 0 {
			b := common.FromHex(sp().Proof[n-1])
			b[len(b)-1] ^= 1
			sp().Proof[n-1] = "0x" + common.Bytes2Hex(b)
		}
	case "storage-hash-altered":
		cp.StorageHash = crypto.Keccak256Hash([]byte("x")).Hex()
	case "code-hash-altered":
		cp.CodeHash = crypto.Keccak256Hash([]byte("y")).Hex()
	case "nonce-altered":
		cp.Nonce = "0x99"
	case "balance-altered":
		cp.Balance = "0x98"
	case "no-storage-proof":
		cp.StorageProof = nil
	case "extra-unused-nodes":
		cp.AccountProof = append(cp.AccountProof, "0x"+common.Bytes2Hex([]byte("unused node")))
		sp().Proof = append(sp().Proof, "0x"+common.Bytes2Hex([]byte("unused node")))
	case "empty-account-proof":
		cp.AccountProof = nil
	case "forged-storage-trie":
		// the relayer's own storage trie holding the queried value under the slot, its root announced in storage_hash;
		// the account proof stays the genuine one (coordinated alteration of storage_hash and the storage nodes)
		t := newTrie()
		enc, _ := rlp.EncodeToBytes(bytes.TrimLeft(queried, "\x00"))
		t.Update(crypto.Keccak256(slot.Bytes()), enc)
		t.Update(crypto.Keccak256(otherSlot.Bytes()), enc)
		cp.StorageHash = t.Hash().Hex()
		sp().Proof = hexes(prove(t, crypto.Keccak256(slot.Bytes())))
	default:
		panic(m)
	}
	return cp
}

// oracle decides the case from the tries the generator owns.
// returns (mustAccept, mustReject); neither = don't care.
func oracle(w *stateWorld, stored bool, q query, set setting, p jsonProof) (bool, bool, string) {
	slot := slotOf(q.Kind, q.Seq)
	if !stored {
		return false, true, "no consensus state at the proof height"
	}
	if q.Height > set.Head {
		return false, true, "proof height above the client's head"
	}
	if set.Head-q.Height < set.Delay {
		return false, true, "too few confirmation blocks"
	}
	if !bytes.Equal(common.FromHex(p.Address), addrX.Bytes()) {
		return false, true, "proof is for another contract address"
	}
	acc, ok := w.Accounts[addrX]
	if !ok {
		return false, true, "the configured contract has no account under this root"
	}
	vn, ok := acc.Storage[slotNameOf(slot)]
	if !ok {
		return false, true, "the slot is absent under this root"
	}
	if vn != q.Value {
		return false, true, "the slot holds another value"
	}
	if len(p.StorageProof) == 0 {
		return false, true, "no storage proof"
	}
	if len(p.StorageProof) != 1 {
		return false, false, "several storage proofs (don't care)"
	}
	if common.HexToHash(p.StorageProof[0].Key) != slot {
		return false, true, "storage proof key is another slot"
	}
	// supplied account fields must be the true ones
	if common.HexToHash(p.Nonce).Big().Uint64() != acc.Nonce || common.HexToHash(p.Balance).Big().Cmp(acc.Balance) != 0 ||
		common.HexToHash(p.StorageHash) != w.stor[addrX].Hash() || common.HexToHash(p.CodeHash) != acc.CodeHash {
		return false, true, "account fields differ from the account under this root"
	}
	// the nodes of the true paths must be among the supplied nodes
	have := map[string]bool{}
	for _, n := range p.AccountProof {
		have[string(common.FromHex(n))] = true
	}
	for _, n := range prove(w.st, crypto.Keccak256(addrX.Bytes())) {
		if !have[string(n)] {
			return false, true, "account proof lacks a node of the path"
		}
	}
	haveS := map[string]bool{}
	for _, n := range p.StorageProof[0].Proof {
		haveS[string(common.FromHex(n))] = true
	}
	for _, n := range prove(w.stor[addrX], crypto.Keccak256(slot.Bytes())) {
		if !haveS[string(n)] {
			return false, true, "storage proof lacks a node of the path"
		}
	}
	if len(have) > len(prove(w.st, crypto.Keccak256(addrX.Bytes()))) || len(haveS) > len(prove(w.stor[addrX], crypto.Keccak256(slot.Bytes()))) {
		return false, false, "proof carries unused extra nodes (don't care)"
	}
	return true, false, "proves the statement"
}

func slotNameOf(s common.Hash) string {
	for _, n := range slotNames {
		if slotByName(n) == s {
			return n
		}
	}
	return "?"
}

// verifier abstracts over the two clients.
type verifier struct {
	name  string
	setup func(ctx sdk.Context, h *c07.Host, set setting, roots map[uint64]common.Hash) exported.ClientState
}

var verifiers = []verifier{
	{"eth", func(ctx sdk.Context, h *c07.Host, set setting, roots map[uint64]common.Hash) exported.ClientState {
		cs := &ethclient.ClientState{Header: ethclient.Header{Height: clienttypes.NewHeight(0, set.Head)}, ChainId: 4, ContractAddress: addrX.Bytes(), TrustingPeriod: 1_000_000, BlockDelay: set.Delay}
		k := h.C.App.XIBCKeeper.ClientKeeper
		k.SetClientState(ctx, "evm-cp", cs)
		for hgt, r := range roots {
			k.SetClientConsensusState(ctx, "evm-cp", clienttypes.NewHeight(0, hgt), &ethclient.ConsensusState{Timestamp: 1, Height: clienttypes.NewHeight(0, hgt), Root: r.Bytes()})
		}
		return cs
	}},
	{"bsc", func(ctx sdk.Context, h *c07.Host, set setting, roots map[uint64]common.Hash) exported.ClientState {
		// delay blocks = len(validators)/2 + 1  => validators = 2*(delay-1) entries (delay >= 1)
		var vals [][]byte
		for i := uint64(0); set.Delay >= 1 && i < 2*(set.Delay-1); i++ {
			vals = append(vals, bytes.Repeat([]byte{byte(i + 1)}, 20))
		}
		cs := &bsctypes.ClientState{Header: bsctypes.Header{Height: clienttypes.NewHeight(0, set.Head)}, ChainId: 56, Epoch: 200, BlockInteval: 3, Validators: vals, ContractAddress: addrX.Bytes(), TrustingPeriod: 1_000_000}
		k := h.C.App.XIBCKeeper.ClientKeeper
		k.SetClientState(ctx, "evm-cp", cs)
		for hgt, r := range roots {
			k.SetClientConsensusState(ctx, "evm-cp", clienttypes.NewHeight(0, hgt), &bsctypes.ConsensusState{Timestamp: 1, Height: clienttypes.NewHeight(0, hgt), Root: r.Bytes()})
		}
		return cs
	}},
}

// storage configurations of the configured contract
func xStorages(tier string) []map[string]string {
	var out []map[string]string
	if tier == "thorough" {
		// every slot absent or holding one of the values (commit#1: all four values)
		for _, c1 := range []string{"", "h1", "hz1", "hz2", "h2"} {
			for _, a1 := range []string{"", "h1", "h2"} {
				for _, c2 := range []string{"", "h1", "h2"} {
					for _, un := range []string{"", "h2"} {
						m := map[string]string{}
						for k, v := range map[string]string{"commit#1": c1, "ack#1": a1, "commit#2": c2, "ack#2": a1, "unrelated": un} {
							if v != "" {
								m[k] = v
							}
						}
						out = append(out, m)
					}
				}
			}
		}
		deep := map[string]string{"commit#1": "hz2", "ack#1": "h1", "commit#2": "h2", "ack#2": "h1"}
		for i := 0; i < 300; i++ {
			deep[fmt.Sprintf("filler/%d", i)] = valueNames[i%4]
		}
		out = append(out, deep)
		return out
	}
	deep := map[string]string{"commit#1": "hz1", "ack#1": "h1", "commit#2": "h2"}
	for i := 0; i < 40; i++ {
		deep[fmt.Sprintf("filler/%d", i)] = valueNames[i%4]
	}
	return []map[string]string{
		deep,
		{"commit#1": "h1"},
		{"commit#1": "hz1", "ack#1": "h2", "commit#2": "h1", "ack#2": "hz1", "unrelated": "h2"},
		{"commit#1": "hz2", "unrelated": "h2"},
		{"ack#1": "h1", "commit#2": "h1", "ack#2": "h2"},
		{"unrelated": "h2"},
		{},
		{"commit#1": "h1", "ack#1": "h1", "commit#2": "h2", "unrelated": "h2"},
	}
}

func makeWorld(xs map[string]string, withX, withY bool, yStorage map[string]string) *stateWorld {
	w := &stateWorld{Accounts: map[common.Address]*account{}}
	if withX {
		w.Accounts[addrX] = &account{Nonce: 1, Balance: big.NewInt(0), Storage: xs, CodeHash: crypto.Keccak256Hash([]byte("code X"))}
	}
	if withY {
		w.Accounts[addrY] = &account{Nonce: 1, Balance: new(big.Int).Lsh(big.NewInt(1), 64), Storage: yStorage, CodeHash: crypto.Keccak256Hash([]byte("code Y"))}
	}
	w.Accounts[addrEOA] = &account{Nonce: 2, Balance: big.NewInt(1), Storage: map[string]string{}, CodeHash: crypto.Keccak256Hash(nil)}
	w.build()
	return w
}

// Run executes the enumeration.
func Run(r *ev.Run, tier string) (evals, nontrivial int64) {
	h := c07.NewHost()
	yBase := map[string]string{"commit#1": "h1", "ack#1": "h1", "commit#2": "h1", "unrelated": "h2"}
	settings := []setting{{12, 1}, {11, 1}, {12, 2}, {11, 0}}
	heights := []uint64{10, 11, 12, 9, 13} // 13: a consensus state is stored there although the client's head is below (a client rolled back by governance, or a reorganisation onto a shorter branch)
	distinct := map[string]bool{}
	storages := xStorages(tier)
	for wi, xs := range storages {
		type wcfg struct {
			withX, withY bool
		}
		cfgs := []wcfg{{true, true}, {true, false}}
		if wi == 0 {
			cfgs = append(cfgs, wcfg{false, true})
		}
		for _, wc := range cfgs {
			w10 := makeWorld(xs, wc.withX, wc.withY, yBase)
			// the world at height 11: commit#1 changes (or appears) — a different root
			xs11 := map[string]string{}
			for k, v := range xs {
				xs11[k] = v
			}
			if xs11["commit#1"] == "h2" {
				xs11["commit#1"] = "h1"
			} else {
				xs11["commit#1"] = "h2"
			}
			w11 := makeWorld(xs11, true, wc.withY, yBase)
			worlds := map[uint64]*stateWorld{10: w10, 11: w11, 13: w10}
			roots := map[uint64]common.Hash{10: w10.root, 11: w11.root, 13: w10.root}
			for _, v := range verifiers {
				for _, set := range settings {
					if v.name == "bsc" && set.Delay == 0 {
						continue // BSC's delay is len(validators)/2+1 >= 1
					}
					ctx := h.Ctx(time.Unix(1000, 0))
					cs := v.setup(ctx, h, set, roots)
					store := h.C.App.XIBCKeeper.ClientKeeper.ClientStore(ctx, "evm-cp")
					for _, kind := range []string{"commit", "ack"} {
						for _, seq := range []uint64{1, zSeq[kind]} {
							for _, val := range valueNames {
								for _, hgt := range heights {
									q := query{kind, seq, val, hgt}
									w, stored := worlds[hgt]
									genW := w
									if genW == nil {
										genW = w10
									}
									otherW := w11
									if hgt == 11 {
										otherW = w10
									}
									base := honest(genW, addrX, slotOf(kind, seq))
									for _, m := range mutations {
										p := mutate(m, genW, otherW, slotOf(kind, seq), base, values[val])
										bz, _ := json.Marshal(p)
										var err error
										func() {
											defer func() {
												if rec := recover(); rec != nil {
													err = fmt.Errorf("panic: %v", rec)
													r.Violation("C08:verification-panics/"+v.name+"/"+m, fmt.Sprint(rec), nil)
												}
											}()
											if kind == "commit" {
												err = cs.VerifyPacketCommitment(ctx, store, h.C.App.AppCodec(), clienttypes.NewHeight(0, hgt), bz, src, dst, seq, values[val])
											} else {
												err = cs.VerifyPacketAcknowledgement(ctx, store, h.C.App.AppCodec(), clienttypes.NewHeight(0, hgt), bz, src, dst, seq, values[val])
											}
										}()
										evals++
										mustAcc, mustRej, why := oracle(genW, stored, q, set, p)
										cls := fmt.Sprintf("%s %-32s oracle=%s got=%v", v.name, m, verdict(mustAcc, mustRej), err == nil)
										r.Outcome(cls)
										desc := map[string]interface{}{"client": v.name, "x_storage_at_10": xs, "with_X": wc.withX, "with_Y": wc.withY, "head": set.Head, "delay_blocks": set.Delay, "query": q, "mutation": m, "oracle": why}
										key := fmt.Sprintf("%d|%v|%s|%v|%v|%s", wi, wc, v.name, set, q, m)
										if (mustAcc || m != "none") && !distinct[key] {
											distinct[key] = true
											nontrivial++
										}
										if evals%4999 == 1 {
											r.Sample(desc)
										}
										if err == nil && mustRej {
											r.Violation(fmt.Sprintf("C08:unproven-statement-accepted/%s/%s/%s", v.name, m, strings.ReplaceAll(why, " ", "-")), fmt.Sprintf("%v", desc), map[string]interface{}{"engine": "c08", "case": desc, "proof": p})
										}
										if err != nil && mustAcc {
											r.Violation(fmt.Sprintf("C08:genuine-proof-rejected/%s/%s", v.name, m), fmt.Sprintf("%v err=%v", desc, err), map[string]interface{}{"engine": "c08", "case": desc, "proof": p})
										}
									}
								}
							}
						}
					}
				}
			}
		}
	}
	return
}

func verdict(a, r bool) string {
	switch {
	case a:
		return "accept"
	case r:
		return "reject"
	}
	return "dontcare"
}

var _ = sort.Strings

// ---- exported fixture for other checks (C18) ----

const (
	Src = src
	Dst = dst
)

// ContractAddress is the configured XIBC contract of the fixture.
func ContractAddress() []byte { return addrX.Bytes() }

// Fixture builds a small state world in which the configured contract stores commitment #1 = h1 and returns
// the state root, the JSON proof for that slot and the committed value.
func Fixture() (root common.Hash, proof []byte, value []byte) {
	w := makeWorld(map[string]string{"commit#1": "h1", "unrelated": "h2"}, true, true, map[string]string{"commit#1": "h2"})
	p := honest(w, addrX, slotOf("commit", 1))
	bz, _ := json.Marshal(p)
	return w.root, bz, values["h1"]
}
