// Package c09 decides C09 (BSC light client) by explicit-state search over
// header chains on a bare client keeper of a real application: at every state
// every candidate next header (every key of the universe as sealer, both
// difficulties, every announced validator list on epoch heights) and every
// single-field mutation of a valid candidate is submitted, and compared with a
// reference snapshot written from the statement.
package c09

import (
	"bytes"
	"crypto/ecdsa"
	"crypto/sha256"
	"fmt"
	"math/big"
	"sort"
	"strings"
	"time"

	"golang.org/x/crypto/sha3"

	"github.com/ethereum/go-ethereum/common"
	ethtypes "github.com/ethereum/go-ethereum/core/types"
	"github.com/ethereum/go-ethereum/crypto"
	"github.com/ethereum/go-ethereum/rlp"

	sdk "github.com/cosmos/cosmos-sdk/types"

	bsctypes "github.com/teleport-network/teleport/x/xibc/clients/light-clients/bsc/types"
	clienttypes "github.com/teleport-network/teleport/x/xibc/core/client/types"

	"verif/internal/bfs"
	"verif/internal/checks/c07"
)

const (
	Client   = "bsc-cp"
	ChainID  = 56
	GasLimit = uint64(30_000_000)
)

var keys, addrs = func() ([]*ecdsa.PrivateKey, []common.Address) {
	var ks []*ecdsa.PrivateKey
	var as []common.Address
	for i := 0; i < 10; i++ {
		h := sha256.Sum256([]byte(fmt.Sprintf("verif-bsc/%d", i)))
		k, err := crypto.ToECDSA(h[:])
		if err != nil {
			panic(err)
		}
		ks = append(ks, k)
		as = append(as, crypto.PubkeyToAddress(k.PublicKey))
	}
	return ks, as
}()

func keyIndex(a common.Address) int {
	for i, x := range addrs {
		if x == a {
			return i
		}
	}
	return -1
}

// sealHash is Parlia's seal hash (the generator's own ground truth).
func sealHash(h *bsctypes.Header, chainID *big.Int) common.Hash {
	hasher := sha3.NewLegacyKeccak256()
	err := rlp.Encode(hasher, []interface{}{
		chainID, h.ParentHash, h.UncleHash, h.Coinbase, h.Root, h.TxHash, h.ReceiptHash, h.Bloom, h.Difficulty,
		h.Height.RevisionHeight, h.GasLimit, h.GasUsed, h.Time, h.Extra[:len(h.Extra)-65], h.MixDigest, h.Nonce,
	})
	if err != nil {
		panic(err)
	}
	var out common.Hash
	hasher.Sum(out[:0])
	return out
}

var emptyUncle = ethtypes.CalcUncleHash(nil)

// Spec of one header.
type Spec struct {
	Parent    *bsctypes.Header
	Number    uint64
	Signer    int
	Coinbase  int // -1 = signer
	Diff      int64
	List      []int // announced validators (epoch headers); nil = none
	SealChain int64
	Mut       string
	Root      []byte // state root override (default: derived from number and signer)
	Vanity    int    // length of the vanity prefix of the extra data minus 32 (0 = the regular 32 bytes; -32 = none): validly sealed headers with short extra data
}

// IndexOf returns the universe index of a validator address (-1 if it is not one of the harness's keys).
func IndexOf(addr []byte) int {
	for i, a := range addrs {
		if bytes.Equal(a[:], addr) {
			return i
		}
	}
	return -1
}

// SortedAddrs returns the addresses of the given keys in the order the client keeps them.
func SortedAddrs(idx []int) [][]byte {
	var out [][]byte
	for _, a := range sortedAddrs(idx) {
		out = append(out, append([]byte{}, a[:]...))
	}
	return out
}

func sortedAddrs(idx []int) []common.Address {
	var out []common.Address
	for _, i := range idx {
		out = append(out, addrs[i])
	}
	sort.Slice(out, func(i, j int) bool { return bytes.Compare(out[i][:], out[j][:]) < 0 })
	return out
}

// Build builds and seals a header.
func Build(s Spec) *bsctypes.Header {
	extra := make([]byte, 32+s.Vanity)
	for _, a := range sortedAddrs(s.List) {
		extra = append(extra, a[:]...)
	}
	cb := s.Coinbase
	if cb < 0 {
		cb = s.Signer
	}
	root := sha256.Sum256([]byte(fmt.Sprintf("root/%d/%d", s.Number, s.Signer)))
	if s.Root != nil {
		copy(root[:], s.Root)
	}
	h := &bsctypes.Header{
		UncleHash:   emptyUncle[:],
		Coinbase:    addrs[cb][:],
		Root:        root[:],
		TxHash:      make([]byte, 32),
		ReceiptHash: make([]byte, 32),
		Bloom:       make([]byte, 256),
		Difficulty:  big.NewInt(s.Diff).Bytes(),
		Height:      clienttypes.NewHeight(0, s.Number),
		GasLimit:    GasLimit,
		GasUsed:     1000,
		Time:        1_600_000_000 + s.Number*3,
		MixDigest:   make([]byte, 32),
		Nonce:       make([]byte, 8),
	}
	if s.Number%2 == 1 {
		h.Nonce[7] = 7 // Parlia does not constrain the nonce: odd blocks carry a non-zero one (it is part of the block hash)
	}
	if s.Parent != nil {
		ph := indepHash(s.Parent)
		h.ParentHash = ph[:]
	} else {
		h.ParentHash = make([]byte, 32)
	}
	tamperSig := false
	switch s.Mut {
	case "":
	case "parent-hash":
		h.ParentHash = bytes.Repeat([]byte{7}, 32)
	case "parent-hash-of-nonce-less-sibling":
		// the hash of the block that differs from the parent only in its nonce (another block); when the parent's nonce is
		// zero anyway this would be the parent itself, so an arbitrary hash is used instead
		h.ParentHash = bytes.Repeat([]byte{9}, 32)
		if s.Parent != nil && !bytes.Equal(s.Parent.Nonce, make([]byte, 8)) {
			sib := *s.Parent
			sib.Nonce = make([]byte, 8)
			ph := indepHash(&sib)
			h.ParentHash = ph[:]
		}
	case "number-same":
		h.Height.RevisionHeight = s.Number - 1
	case "number+2":
		h.Height.RevisionHeight = s.Number + 1
	case "uncle-hash":
		h.UncleHash = bytes.Repeat([]byte{1}, 32)
	case "mix-digest":
		h.MixDigest = append(make([]byte, 31), 1)
	case "gas-limit-jump-up":
		h.GasLimit = GasLimit + GasLimit/256
	case "gas-limit-jump-down":
		h.GasLimit = GasLimit - GasLimit/256
	case "gas-used-above-limit":
		h.GasUsed = h.GasLimit + 1
	case "extra-short-vanity":
		extra = make([]byte, 20)
	case "validator-bytes-wrong-place-or-length":
		// non-epoch header carrying a validator list / epoch header with a list length not a multiple of 20
		if len(s.List) == 0 {
			extra = append(extra, addrs[0][:]...)
		} else {
			extra = extra[:len(extra)-1]
		}
	case "coinbase-not-sealer":
		h.Coinbase = addrs[(s.Signer+1)%10][:]
	case "corrupt-signature":
		tamperSig = true
	case "difficulty-zero":
		h.Difficulty = nil
	case "seal-other-chain-id":
	default:
		panic("unknown mutation " + s.Mut)
	}
	if s.Mut == "extra-short-vanity" {
		// shorter than vanity+seal altogether
		h.Extra = extra
		return h
	}
	h.Extra = append(extra, make([]byte, 65)...)
	cid := big.NewInt(ChainID)
	if s.Mut == "seal-other-chain-id" {
		cid = big.NewInt(97)
	}
	sig, err := crypto.Sign(sealHash(h, cid).Bytes(), keys[s.Signer])
	if err != nil {
		panic(err)
	}
	if tamperSig {
		sig[10] ^= 0xff
	}
	copy(h.Extra[len(h.Extra)-65:], sig)
	return h
}

// indepHash is the block hash computed by go-ethereum's own header type (not by the client under test).
func indepHash(h *bsctypes.Header) common.Hash {
	var nonce ethtypes.BlockNonce
	copy(nonce[:], h.Nonce)
	var bloom ethtypes.Bloom
	copy(bloom[:], h.Bloom)
	return (&ethtypes.Header{
		ParentHash: common.BytesToHash(h.ParentHash), UncleHash: common.BytesToHash(h.UncleHash), Coinbase: common.BytesToAddress(h.Coinbase),
		Root: common.BytesToHash(h.Root), TxHash: common.BytesToHash(h.TxHash), ReceiptHash: common.BytesToHash(h.ReceiptHash), Bloom: bloom,
		Difficulty: new(big.Int).SetBytes(h.Difficulty), Number: new(big.Int).SetUint64(h.Height.RevisionHeight), GasLimit: h.GasLimit, GasUsed: h.GasUsed,
		Time: h.Time, Extra: h.Extra, MixDigest: common.BytesToHash(h.MixDigest), Nonce: nonce,
	}).Hash()
}

var structuralMutations = []string{"parent-hash", "parent-hash-of-nonce-less-sibling", "number-same", "number+2", "uncle-hash", "mix-digest", "gas-limit-jump-up", "gas-limit-jump-down",
	"gas-used-above-limit", "extra-short-vanity", "validator-bytes-wrong-place-or-length", "coinbase-not-sealer", "corrupt-signature", "difficulty-zero", "seal-other-chain-id"}

// Bounds of one configuration.
type Bounds struct {
	N             int // initial validator set size
	Epoch         uint64
	Depth         int
	U             int    // size of the key universe (default 5)
	Big           bool   // large-set configuration: restricted sealer menu, shrinking lists
	GenesisShrink int    // large sets: the genesis header already announces a list of this size (0 = same set)
	Start         uint64 // height of the start header (0 = 4 epochs); chosen just below a power of ten so that the chain crosses a change in the number of decimal digits of the height
	Reanchored    bool   // the client first follows two blocks of a branch that is then abandoned (other state roots) and is brought back to the start header by the real UpgradeClient: the heights above it already hold consensus states
	ViaUpgrade    bool   // the client is created one epoch earlier and brought to the start header by the real UpgradeClient (the announced list must become the pending one)
	Rotate        bool   // the start header announces the set with its first validator replaced by an outsider
}

func (b Bounds) u() int {
	if b.U == 0 {
		return 5
	}
	return b.U
}

// model is the reference snapshot.
type model struct {
	Head    uint64
	Vals    []int // sorted by address
	Sealers map[uint64]int
	Pending []int
	// last switch to a larger set: block and the recents limit (N/2+1) that was in force before it
	GrowAt, GrowOldLimit uint64
}

func (m model) clone() model {
	n := model{Head: m.Head, Vals: append([]int{}, m.Vals...), Pending: append([]int{}, m.Pending...), Sealers: map[uint64]int{}, GrowAt: m.GrowAt, GrowOldLimit: m.GrowOldLimit}
	for k, v := range m.Sealers {
		n.Sealers[k] = v
	}
	return n
}

func sortIdx(idx []int) []int {
	out := append([]int{}, idx...)
	sort.Slice(out, func(i, j int) bool { return bytes.Compare(addrs[out[i]][:], addrs[out[j]][:]) < 0 })
	return out
}

type sys struct {
	b      Bounds
	h      *c07.Host
	ctx    sdk.Context
	m      model
	parent *bsctypes.Header
}

var sharedHost = c07.NewHost()

// New creates the client at an epoch genesis sealed by validator 0 of the initial set, announcing the same set.
func New(b Bounds) bfs.System {
	s := &sys{b: b, h: sharedHost}
	s.ctx = s.h.Ctx(time.Unix(1_600_001_000, 0))
	var set []int
	for i := 0; i < b.N; i++ {
		set = append(set, i)
	}
	set = sortIdx(set)
	g := b.Epoch * 4
	if b.Start != 0 {
		g = b.Start
	}
	announced := set
	if b.GenesisShrink > 0 {
		announced = sortIdx(set[len(set)-b.GenesisShrink:])
	}
	if b.Rotate {
		announced = sortIdx(append(append([]int{}, set[1:]...), b.N)) // validator 0 dropped, outsider N added
	}
	gen := Build(Spec{Number: g, Signer: set[0], Coinbase: -1, Diff: 2, List: announced})
	var vals [][]byte
	for _, a := range sortedAddrs(set) {
		vals = append(vals, append([]byte{}, a[:]...))
	}
	cs := bsctypes.NewClientState(*gen, ChainID, b.Epoch, 3, vals, common.HexToAddress("0x20000001").Bytes(), 1_000_000)
	cons := &bsctypes.ConsensusState{Timestamp: gen.Time, Height: gen.Height, Root: gen.Root}
	k := s.h.C.App.XIBCKeeper.ClientKeeper
	if b.ViaUpgrade {
		// an older client of the same set (one epoch earlier, announcing the unchanged set), then the governance upgrade
		old := Build(Spec{Number: g - b.Epoch, Signer: set[0], Coinbase: -1, Diff: 2, List: set})
		ocs := bsctypes.NewClientState(*old, ChainID, b.Epoch, 3, vals, common.HexToAddress("0x20000001").Bytes(), 1_000_000)
		if err := k.CreateClient(s.ctx, Client, ocs, &bsctypes.ConsensusState{Timestamp: old.Time, Height: old.Height, Root: old.Root}); err != nil {
			panic(err)
		}
		if err := k.UpgradeClient(s.ctx, Client, cs, cons); err != nil {
			panic(err)
		}
	} else if err := k.CreateClient(s.ctx, Client, cs, cons); err != nil {
		panic(err)
	}
	if b.Reanchored {
		parent := gen
		for step := uint64(1); step <= 2; step++ {
			done := false
			for signer := 0; signer < b.N && !done; signer++ {
				for _, d := range []int64{2, 1} {
					root := sha256.Sum256([]byte(fmt.Sprintf("abandoned branch %d", step)))
					h := Build(Spec{Parent: parent, Number: g + step, Signer: set[signer], Coinbase: -1, Diff: d, Root: root[:]})
					cctx, write := c07.ForkW(s.ctx, s.ctx.BlockTime())
					if err := k.UpdateClient(cctx, Client, h); err == nil {
						write()
						parent, done = h, true
						break
					}
				}
			}
			if !done {
				panic("reanchored fixture: no header of the abandoned branch was accepted")
			}
		}
		if err := k.UpgradeClient(s.ctx, Client, cs, cons); err != nil {
			panic(err)
		}
	}
	s.parent = gen
	s.m = model{Head: g, Vals: set, Pending: announced, Sealers: map[uint64]int{g: set[0]}}
	return s
}

func (s *sys) Clone() bfs.System {
	n := *s
	n.m = s.m.clone()
	n.ctx = c07.Fork(s.ctx, s.ctx.BlockTime())
	return &n
}

// lists announced on an epoch header, relative to the current validator set.
func (s *sys) epochLists() map[string][]int {
	cur := s.m.Vals
	out := map[string][]int{"same": cur}
	in := map[int]bool{}
	for _, v := range cur {
		in[v] = true
	}
	if s.b.Big {
		out = map[string][]int{"same": cur}
		if len(cur) > 3 {
			out["shrink-to-3"] = sortIdx(cur[len(cur)-3:])
			out["shrink-to-2"] = sortIdx(cur[:2])
		}
		if len(cur) <= 3 {
			var all []int
			for i := 0; i < s.b.u()-1; i++ {
				all = append(all, i)
			}
			out["grow-to-all"] = sortIdx(all)
		}
		return out
	}
	for i := 0; i < s.b.u(); i++ {
		if !in[i] && len(cur) < 4 {
			out["plus1"] = sortIdx(append(append([]int{}, cur...), i))
			break
		}
	}
	if len(cur) > 1 {
		out["minus1"] = sortIdx(cur[1:])
	}
	var dis []int
	for i := 0; i < s.b.u() && len(dis) < len(cur); i++ {
		if !in[i] {
			dis = append(dis, i)
		}
	}
	if len(dis) > 0 {
		out["disjoint"] = sortIdx(dis)
	}
	return out
}

func (s *sys) Ops() []string {
	var out []string
	next := s.m.Head + 1
	lists := []string{"-"}
	if next%s.b.Epoch == 0 {
		lists = nil
		for k := range s.epochLists() {
			lists = append(lists, k)
		}
		sort.Strings(lists)
	}
	for _, l := range lists {
		for _, signer := range s.sealerMenu() {
			for _, d := range []int{2, 1} {
				out = append(out, fmt.Sprintf("hdr %d %d %s", signer, d, l))
			}
		}
	}
	// single-field mutations of one valid candidate
	if v, d, ok := s.validCandidate(); ok {
		for _, m := range structuralMutations {
			out = append(out, fmt.Sprintf("mut %d %d %s %s", v, d, lists[0], m))
		}
	}
	return out
}

// sealerMenu: every key of the universe, or (large sets) the in-turn validator, its two successors,
// every sealer of the last floor(N/2)+1 blocks and one outsider.
func (s *sys) sealerMenu() []int {
	var out []int
	if !s.b.Big {
		for i := 0; i < s.b.u(); i++ {
			out = append(out, i)
		}
		return out
	}
	seen := map[int]bool{}
	addk := func(k int) {
		if !seen[k] {
			seen[k] = true
			out = append(out, k)
		}
	}
	n := uint64(len(s.m.Vals))
	next := s.m.Head + 1
	for k := uint64(0); k < 3 && k < n; k++ {
		addk(s.m.Vals[(next+k)%n])
	}
	for k := uint64(0); k <= n/2+1; k++ {
		if w, ok := s.m.Sealers[s.m.Head-k]; ok && s.m.Head >= k {
			addk(w)
		}
	}
	addk(s.b.u() - 1) // never a validator in the large-set configurations
	return out
}

// eligible says whether key idx may seal block `number` under the reference snapshot, and with which difficulty.
func (s *sys) eligible(idx int, number uint64) (ok bool, diff int64, why string) {
	pos := -1
	for i, v := range s.m.Vals {
		if v == idx {
			pos = i
		}
	}
	if pos < 0 {
		return false, 0, "not a validator"
	}
	n := uint64(len(s.m.Vals))
	conflict, inWindow := uint64(0), false
	for k := uint64(1); k <= n/2; k++ {
		if number >= k {
			if who, ok := s.m.Sealers[number-k]; ok && who == idx {
				conflict = number - k
				// was this record still inside the window that was in force when the set last grew?
				if !(s.m.GrowAt > 0 && number-k+s.m.GrowOldLimit < s.m.GrowAt) {
					inWindow = true
				}
			}
		}
	}
	if conflict > 0 {
		if inWindow {
			return false, 0, fmt.Sprintf("sealed block %d (within the last %d)", conflict, n/2)
		}
		return false, 0, fmt.Sprintf("sealed-before-growth: sealed block %d (within the last %d of the enlarged set, but outside the window of the smaller set in force until block %d)", conflict, n/2, s.m.GrowAt)
	}
	if uint64(pos) == number%n {
		return true, 2, ""
	}
	return true, 1, ""
}

func (s *sys) validCandidate() (int, int64, bool) {
	for _, v := range s.m.Vals {
		if ok, d, _ := s.eligible(v, s.m.Head+1); ok {
			return v, d, true
		}
	}
	return 0, 0, false
}

func (s *sys) Apply(op string) (obs, class string, viols []bfs.Viol) {
	add := func(sig, d string) { viols = append(viols, bfs.Viol{Sig: "C09:" + sig, Detail: d}) }
	f := strings.Fields(op)
	var signer int
	var diff int64
	fmt.Sscan(f[1], &signer)
	fmt.Sscan(f[2], &diff)
	number := s.m.Head + 1
	var list []int
	isEpoch := number%s.b.Epoch == 0
	if isEpoch {
		list = s.epochLists()[f[3]]
	}
	mut := ""
	if f[0] == "mut" {
		mut = f[4]
	}
	hdr := Build(Spec{Parent: s.parent, Number: number, Signer: signer, Coinbase: -1, Diff: diff, List: list, Mut: mut})
	okRef, wantDiff, why := s.eligible(signer, number)
	may := okRef && diff == wantDiff && mut == ""
	cctx, write := c07.ForkW(s.ctx, s.ctx.BlockTime())
	var err error
	func() {
		defer func() {
			if r := recover(); r != nil {
				err = fmt.Errorf("panic: %v", r)
				add("update-panics", fmt.Sprintf("op %s: %v", op, r))
			}
		}()
		if e := hdr.ValidateBasic(); e != nil {
			err = e
			return
		}
		err = s.h.C.App.XIBCKeeper.ClientKeeper.UpdateClient(cctx, Client, hdr)
	}()
	desc := fmt.Sprintf("block %d sealer key%d difficulty %d list %v mutation %q; validators %v pending %v recent sealers %v", number, signer, diff, list, mut, s.m.Vals, s.m.Pending, s.recentString())
	if err != nil {
		class = "rejected"
		if mut != "" {
			class = "mutation rejected: " + mut
		} else if may {
			class = "valid header rejected (informational)"
		} else if !okRef {
			class = "rejected: " + strings.Fields(why)[0]
		} else {
			class = "rejected: wrong difficulty"
		}
		return "rej", class, viols
	}
	class = "accepted"
	if mut != "" {
		class = "mutation accepted: " + mut
	}
	if !may {
		reason := why
		if okRef && diff != wantDiff {
			reason = fmt.Sprintf("difficulty %d does not match the sealer's turn (want %d)", diff, wantDiff)
		}
		if mut != "" {
			reason = "structurally invalid / not the direct child: " + mut
		}
		add("ineligible-header-accepted/"+strings.TrimSuffix(strings.Fields(reason)[0], ":")+mut, fmt.Sprintf("%s -- %s", desc, reason))
	}
	// commit the step; advance the model exactly as the statement prescribes
	write()
	s.parent = hdr
	s.m.Head = number
	s.m.Sealers[number] = signer
	if isEpoch {
		s.m.Pending = list
		class += " epoch"
	}
	if number%s.b.Epoch == uint64(len(s.m.Vals)/2) {
		if fmt.Sprint(s.m.Vals) != fmt.Sprint(sortIdx(s.m.Pending)) {
			class += " set-switch"
		}
		if len(s.m.Pending) > len(s.m.Vals) {
			s.m.GrowAt, s.m.GrowOldLimit = number, uint64(len(s.m.Vals)/2+1)
		}
		s.m.Vals = sortIdx(s.m.Pending)
	}
	// compare the client with the model
	csI, _ := s.h.C.App.XIBCKeeper.ClientKeeper.GetClientState(s.ctx, Client)
	cs := csI.(*bsctypes.ClientState)
	if cs.Header.Height.RevisionHeight != number || cs.Header.Hash() != hdr.Hash() {
		add("head-not-updated", desc)
	}
	var got []common.Address
	for _, v := range cs.Validators {
		got = append(got, common.BytesToAddress(v))
	}
	sort.Slice(got, func(i, j int) bool { return bytes.Compare(got[i][:], got[j][:]) < 0 })
	if fmt.Sprint(got) != fmt.Sprint(sortedAddrs(s.m.Vals)) {
		add("validator-set-differs-from-model", fmt.Sprintf("after %s: client validators %v, model %v (keys %v)", desc, got, sortedAddrs(s.m.Vals), s.m.Vals))
	}
	cons, ok := s.h.C.App.XIBCKeeper.ClientKeeper.GetClientConsensusState(s.ctx, Client, hdr.Height)
	if !ok || !bytes.Equal(cons.GetRoot(), hdr.Root) {
		add("consensus-state-not-header-root", desc)
	}
	return "acc", class, viols
}

func (s *sys) recentString() string {
	var out []string
	n := uint64(len(s.m.Vals))
	for k := n/2 + 1; k >= 1; k-- {
		if s.m.Head+1 >= k {
			if w, ok := s.m.Sealers[s.m.Head+1-k]; ok {
				out = append(out, fmt.Sprintf("%d:key%d", s.m.Head+1-k, w))
			}
		}
	}
	return strings.Join(out, ",")
}

// Key: height modulo (epoch x product of possible set sizes) keeps turn arithmetic exact; validator set, pending set
// and the sealers of the last 2 blocks (max floor(N/2) for N <= 5) complete the state.
func (s *sys) Key() string {
	period := s.b.Epoch * 2520 // lcm of set sizes 1..10 = 2520
	var rec []string
	for k := uint64(1); k <= 5; k++ {
		if w, ok := s.m.Sealers[s.m.Head+1-k]; ok && s.m.Head+1 >= k {
			rec = append(rec, fmt.Sprint(w))
		} else {
			rec = append(rec, "-")
		}
	}
	grow := "-"
	if s.m.GrowAt > 0 && s.m.Head-s.m.GrowAt < 6 {
		grow = fmt.Sprintf("%d/%d", s.m.Head-s.m.GrowAt, s.m.GrowOldLimit)
	}
	return fmt.Sprintf("h=%d v=%v p=%v r=%s g=%s", s.m.Head%period, s.m.Vals, sortIdx(s.m.Pending), strings.Join(rec, ","), grow)
}

func (s *sys) Check() []bfs.Viol { return nil }
