// Package c10 decides C10 (Ethereum light client: rule-abiding headers only,
// forks never wedge it) by explicit-state search over submission orders of a
// header tree on the real client (chain id 4: no proof-of-work), plus
// single-field rule mutations, plus recorded main-net headers for the
// difficulty / proof-of-work mutations.
package c10

import (
	"bytes"
	"crypto/sha256"
	"fmt"
	"math/big"
	"sort"
	"strings"
	"time"

	"github.com/ethereum/go-ethereum/common"
	"github.com/ethereum/go-ethereum/consensus/misc"
	ethtypes "github.com/ethereum/go-ethereum/core/types"
	"github.com/ethereum/go-ethereum/params"

	sdk "github.com/cosmos/cosmos-sdk/types"

	ethclient "github.com/teleport-network/teleport/x/xibc/clients/light-clients/eth/types"
	clienttypes "github.com/teleport-network/teleport/x/xibc/core/client/types"

	"verif/internal/bfs"
	"verif/internal/checks/c07"
)

const Client = "eth-cp"

// Node of the header universe.
type Node struct {
	Name   string
	Parent string
	Root   string // state-root label (equal labels => equal roots)
}

// Universe returns the candidate header tree of a tier.
func Universe(tier string) []Node {
	u := []Node{
		{"A1", "G", ""}, {"B1", "G", ""},
		{"A2", "A1", ""}, {"B2", "B1", ""}, {"C2", "A1", ""},
		{"A3", "A2", ""}, {"B3", "B2", ""},
	}
	if tier == "thorough" {
		u = append(u, Node{"C3", "C2", ""}, Node{"D2", "B1", ""}, Node{"A4", "A3", ""}, Node{"B4", "B3", ""}, Node{"D3", "A2", ""})
	}
	return u
}

// EqualRootUniverse: siblings with equal state roots (reported separately).
func EqualRootUniverse() []Node {
	return []Node{{"A1", "G", "same1"}, {"B1", "G", "same1"}, {"A2", "A1", "same2"}, {"B2", "B1", "same2"}, {"A3", "A2", ""}, {"B3", "B2", ""}}
}

var londonCfg = func() *params.ChainConfig {
	c := *params.AllEthashProtocolChanges
	c.LondonBlock = big.NewInt(0)
	return &c
}()

const baseTime = uint64(1_700_000_000)

// gethHeader builds the go-ethereum view of a header (ground truth for hashing and base fee).
// gas profile of the generated headers (set by New from the search's tag; one search runs at a time):
// default = below target with a gwei-range base fee (the fee decreases); "tiny-fee" = above target with a base fee of a
// few wei (the increase rounds to zero and must be floored at 1); "at-target" = exactly at the target (fee unchanged).
var profGasUsed, profGenesisFee = uint64(10_000_000), int64(1_000_000_000)
var profStart = int64(100) // "digits": the genesis sits at 98 so that the branches cross 99 -> 100 (decimal heights in store keys)

func setProfile(tag string) {
	profGasUsed, profGenesisFee, profStart = 10_000_000, 1_000_000_000, 100
	if strings.Contains(tag, "digits") {
		profStart = 98
	}
	switch {
	case strings.Contains(tag, "tiny-fee"):
		profGasUsed, profGenesisFee = 20_000_000, 7
	case strings.Contains(tag, "at-target"):
		profGasUsed, profGenesisFee = 15_000_000, 1_000_000_000
	}
}

func gethHeader(parent *ethtypes.Header, name, rootLabel string, mut string) *ethtypes.Header {
	if rootLabel == "" {
		rootLabel = name
	}
	r := sha256.Sum256([]byte("state-root/" + rootLabel))
	h := &ethtypes.Header{
		UncleHash:   ethtypes.EmptyUncleHash,
		Coinbase:    common.HexToAddress("0x00000000000000000000000000000000000000c0"),
		Root:        common.BytesToHash(r[:]),
		TxHash:      ethtypes.EmptyRootHash,
		ReceiptHash: ethtypes.EmptyRootHash,
		Difficulty:  big.NewInt(2),
		GasLimit:    30_000_000,
		GasUsed:     profGasUsed,
		Extra:       []byte(name),
	}
	if parent == nil {
		h.Number = big.NewInt(profStart)
		h.Time = baseTime
		h.BaseFee = big.NewInt(profGenesisFee)
		return h
	}
	h.ParentHash = parent.Hash()
	h.Number = new(big.Int).Add(parent.Number, big.NewInt(1))
	h.Time = parent.Time + 12
	h.BaseFee = misc.CalcBaseFee(londonCfg, parent)
	switch mut {
	case "":
	case "time-equal-parent":
		h.Time = parent.Time
	case "time-before-parent":
		h.Time = parent.Time - 1
	case "time-far-future":
		h.Time = baseTime + 1_000_000
	case "gas-limit-up-by-bound":
		h.GasLimit = parent.GasLimit + parent.GasLimit/1024
	case "gas-limit-down-by-bound":
		h.GasLimit = parent.GasLimit - parent.GasLimit/1024
	case "gas-limit-below-5000":
		h.GasLimit = 4999
		h.GasUsed = 0
	case "gas-used-above-limit":
		h.GasUsed = h.GasLimit + 1
	case "base-fee+1":
		h.BaseFee = new(big.Int).Add(h.BaseFee, big.NewInt(1))
	case "base-fee-1":
		h.BaseFee = new(big.Int).Sub(h.BaseFee, big.NewInt(1))
	case "parent-hash-unknown":
		h.ParentHash = common.BytesToHash(bytes.Repeat([]byte{9}, 32))
	case "height+1":
		h.Number = new(big.Int).Add(h.Number, big.NewInt(1))
	case "height-1":
		h.Number = new(big.Int).Sub(h.Number, big.NewInt(1))
	case "difficulty-zero":
		h.Difficulty = big.NewInt(0)
	default:
		panic("unknown mutation " + mut)
	}
	return h
}

var RuleMutations = []string{"time-equal-parent", "time-before-parent", "time-far-future", "gas-limit-up-by-bound", "gas-limit-down-by-bound",
	"gas-limit-below-5000", "gas-used-above-limit", "base-fee+1", "base-fee-1", "parent-hash-unknown", "height+1", "height-1", "difficulty-zero"}

func toProto(h *ethtypes.Header) *ethclient.Header {
	return &ethclient.Header{
		ParentHash:  h.ParentHash[:],
		UncleHash:   h.UncleHash[:],
		Coinbase:    h.Coinbase[:],
		Root:        h.Root[:],
		TxHash:      h.TxHash[:],
		ReceiptHash: h.ReceiptHash[:],
		Bloom:       h.Bloom[:],
		Difficulty:  h.Difficulty.Bytes(),
		Height:      clienttypes.NewHeight(0, h.Number.Uint64()),
		GasLimit:    h.GasLimit,
		GasUsed:     h.GasUsed,
		Time:        h.Time,
		Extra:       h.Extra,
		MixDigest:   h.MixDigest[:],
		Nonce:       h.Nonce.Uint64(),
		BaseFee:     h.BaseFee.Bytes(),
	}
}

type sys struct {
	uni      []Node
	hdr      map[string]*ethtypes.Header
	h        *c07.Host
	ctx      sdk.Context
	accepted map[string]bool
	head     string
	tag      string
	dead     bool
	ahead    bool   // variant "ahead": headers may lie up to 15 s after the block time, later ones are refused as coming from the future
	now      int64  // unix seconds of the local clock (variant "expiry": advances 12 s per operation)
	tp       uint64 // trusting period in seconds (0 = far away)
}

var sharedHost = c07.NewHost()

// New creates the client at genesis header G.
func New(uni []Node, tag string) bfs.System {
	setProfile(tag)
	s := &sys{uni: uni, hdr: map[string]*ethtypes.Header{}, h: sharedHost, accepted: map[string]bool{"G": true}, head: "G", tag: tag}
	s.hdr["G"] = gethHeader(nil, "G", "", "")
	for _, n := range uni {
		s.hdr[n.Name] = gethHeader(s.hdr[n.Parent], n.Name, n.Root, "")
	}
	s.ctx = s.h.Ctx(time.Unix(int64(baseTime)+1000, 0))
	g := toProto(s.hdr["G"])
	cs := &ethclient.ClientState{Header: *g, ChainId: 4, ContractAddress: common.HexToAddress("0x20000001").Bytes(), TrustingPeriod: 10_000_000, TimeDelay: 0, BlockDelay: 1}
	s.now = int64(baseTime) + 1000
	if strings.Contains(tag, "ahead") {
		// the local clock lies behind the counterparty's: headers of the third generation are 10 s ahead of the block time
		// (15 s are tolerated), deeper ones too far ahead; a head whose time is ahead of the clock must not wedge the client
		s.now = int64(baseTime) + 3*12 - 10
		s.ahead = true
		s.ctx = s.h.Ctx(time.Unix(s.now, 0))
	}
	if strings.Contains(tag, "expiry") {
		// the genesis header leaves the trusting period after the second operation while its descendants are still inside it:
		// updates then prune the oldest consensus state (and its header / root index)
		s.tp = 1020
		cs.TrustingPeriod = s.tp
	}
	cons := &ethclient.ConsensusState{Timestamp: g.Time, Height: g.Height, Root: g.Root}
	k := s.h.C.App.XIBCKeeper.ClientKeeper
	if strings.Contains(tag, "via-upgrade") {
		// an older client (an unrelated header ten blocks below) is brought to G by the real governance upgrade
		old := gethHeader(nil, "OLD", "", "")
		old.Number = big.NewInt(90)
		old.Time = baseTime - 120
		o := toProto(old)
		ocs := &ethclient.ClientState{Header: *o, ChainId: 4, ContractAddress: common.HexToAddress("0x20000001").Bytes(), TrustingPeriod: 10_000_000, TimeDelay: 0, BlockDelay: 1}
		if err := k.CreateClient(s.ctx, Client, ocs, &ethclient.ConsensusState{Timestamp: o.Time, Height: o.Height, Root: o.Root}); err != nil {
			panic(err)
		}
		if err := k.UpgradeClient(s.ctx, Client, cs, cons); err != nil {
			panic(err)
		}
		return s
	}
	if err := k.CreateClient(s.ctx, Client, cs, cons); err != nil {
		panic(err)
	}
	if strings.Contains(tag, "upgrade-to-child") {
		// governance then upgrades the client to a header it never synced: the first child of G in the universe
		for _, n := range uni {
			if n.Parent == "G" {
				u := toProto(s.hdr[n.Name])
				ucs := &ethclient.ClientState{Header: *u, ChainId: 4, ContractAddress: common.HexToAddress("0x20000001").Bytes(), TrustingPeriod: 10_000_000, TimeDelay: 0, BlockDelay: 1}
				if err := k.UpgradeClient(s.ctx, Client, ucs, &ethclient.ConsensusState{Timestamp: u.Time, Height: u.Height, Root: u.Root}); err != nil {
					panic(err)
				}
				s.accepted[n.Name] = true
				s.head = n.Name
				break
			}
		}
	}
	return s
}

func (s *sys) Clone() bfs.System {
	n := *s
	n.accepted = map[string]bool{}
	for k, v := range s.accepted {
		n.accepted[k] = v
	}
	n.ctx = c07.Fork(s.ctx, s.ctx.BlockTime())
	return &n
}

func (s *sys) parentOf(name string) string {
	for _, n := range s.uni {
		if n.Name == name {
			return n.Parent
		}
	}
	return ""
}

func (s *sys) expired(name string) bool {
	return s.tp > 0 && int64(s.hdr[name].Time)+int64(s.tp) < s.now
}

func (s *sys) Ops() []string {
	if s.dead {
		return nil
	}
	var out []string
	for _, n := range s.uni {
		out = append(out, "sub "+n.Name)
	}
	if s.tp > 0 {
		return out // (the clock makes every state distinct: submissions only)
	}
	// rule mutations of a child of the current head
	for _, n := range s.uni {
		if n.Parent == s.head {
			for _, m := range RuleMutations {
				out = append(out, "mut "+n.Name+" "+m)
			}
			break
		}
	}
	return out
}

func (s *sys) update(ctx sdk.Context, h *ethclient.Header) (err error) {
	defer func() {
		if r := recover(); r != nil {
			err = fmt.Errorf("panic: %v", r)
		}
	}()
	if e := h.ValidateBasic(); e != nil {
		return e
	}
	return s.h.C.App.XIBCKeeper.ClientKeeper.UpdateClient(ctx, Client, h)
}

func (s *sys) Apply(op string) (obs, class string, viols []bfs.Viol) {
	add := func(sig, d string) { viols = append(viols, bfs.Viol{Sig: "C10:" + sig, Detail: d}) }
	f := strings.Fields(op)
	name := f[1]
	if s.tp > 0 {
		s.now += 12
		s.ctx = s.ctx.WithBlockTime(time.Unix(s.now, 0))
	}
	cctx, write := c07.ForkW(s.ctx, s.ctx.BlockTime())
	if f[0] == "mut" {
		h := gethHeader(s.hdr[s.parentOf(name)], name, "", f[2])
		err := s.update(cctx, toProto(h))
		if err == nil {
			add("rule-breaking-header-accepted/"+f[2], fmt.Sprintf("child of %s with mutation %s accepted (accepted set %v)", s.head, f[2], s.acceptedList()))
			return "acc", "mutation accepted " + f[2], viols
		}
		return "rej", "mutation rejected " + f[2], viols
	}
	parent := s.parentOf(name)
	err := s.update(cctx, toProto(s.hdr[name]))
	if err != nil {
		if strings.HasPrefix(err.Error(), "panic") {
			add("update-panics", fmt.Sprintf("submitting %s: %v", name, err))
		}
		if s.expired(s.head) {
			return "rej", "client expired (its head left the trusting period)", viols
		}
		if s.ahead && int64(s.hdr[name].Time) > s.now+15 {
			return "rej", "header more than 15 s ahead of the block time", viols
		}
		if s.accepted[parent] && s.expired(parent) {
			return "rej", "child of a header that left the trusting period (may have been pruned)", viols
		}
		if s.accepted[parent] {
			add("valid-child-of-stored-header-rejected"+s.tag, fmt.Sprintf("header %s (valid child of stored %s) rejected with head=%s, accepted=%v: %v", name, parent, s.head, s.acceptedList(), err))
			return "rej", "valid child rejected", viols
		}
		return "rej", "orphan rejected", viols
	}
	if !s.accepted[parent] {
		add("header-accepted-before-its-parent", fmt.Sprintf("header %s accepted although %s was never accepted", name, parent))
	}
	write()
	class = "accepted (extends head)"
	if parent != s.head {
		class = "accepted (switches branch)"
	}
	if s.accepted[name] {
		class = "re-accepted"
	}
	s.accepted[name] = true
	s.head = name
	return "acc", class, viols
}

func (s *sys) acceptedList() []string {
	var out []string
	for k := range s.accepted {
		out = append(out, k)
	}
	sort.Strings(out)
	return out
}

// consByHeight reads the stored consensus roots for heights 100..104 as universe names.
func (s *sys) consNames() []string {
	var out []string
	for hgt := uint64(100); hgt <= 104; hgt++ {
		cons, ok := s.h.C.App.XIBCKeeper.ClientKeeper.GetClientConsensusState(s.ctx, Client, clienttypes.NewHeight(0, hgt))
		if !ok {
			out = append(out, "-")
			continue
		}
		name := "?"
		for n, h := range s.hdr {
			if h.Number.Uint64() == hgt && bytes.Equal(h.Root[:], cons.GetRoot()) {
				if name == "?" || n < name {
					name = n
				}
			}
		}
		out = append(out, name)
	}
	return out
}

func (s *sys) Key() string {
	return fmt.Sprintf("acc=%v head=%s cons=%v now=%d", s.acceptedList(), s.head, s.consNames(), s.now)
}

// Check: head is the last accepted header and every consensus state on the head's ancestry is that ancestor's root.
func (s *sys) Check() []bfs.Viol {
	var viols []bfs.Viol
	csI, _ := s.h.C.App.XIBCKeeper.ClientKeeper.GetClientState(s.ctx, Client)
	cs := csI.(*ethclient.ClientState)
	want := s.hdr[s.head]
	if cs.Header.Hash() != want.Hash() {
		viols = append(viols, bfs.Viol{Sig: "C10:head-is-not-last-accepted-header", Detail: fmt.Sprintf("client head %s at %d, last accepted %s", cs.Header.Hash(), cs.Header.Height.RevisionHeight, s.head)})
	}
	for n := s.head; n != ""; n = s.parentOf(n) {
		h := s.hdr[n]
		cons, ok := s.h.C.App.XIBCKeeper.ClientKeeper.GetClientConsensusState(s.ctx, Client, clienttypes.NewHeight(0, h.Number.Uint64()))
		if !ok && s.expired(n) {
			break // pruned after leaving the trusting period (allowed)
		}
		if !ok || !bytes.Equal(cons.GetRoot(), h.Root[:]) {
			got := "(none)"
			if ok {
				got = fmt.Sprintf("%x", cons.GetRoot())
			}
			viols = append(viols, bfs.Viol{Sig: "C10:consensus-state-on-ancestry-is-not-ancestor-root" + s.tag, Detail: fmt.Sprintf("head=%s accepted=%v: consensus state at height %d is %s, ancestor %s has root %x (stored view %v)", s.head, s.acceptedList(), h.Number.Uint64(), got, n, h.Root, s.consNames())})
			break
		}
		if n == "G" {
			break
		}
	}
	return viols
}

// ---- exported helpers for other checks (C18) ----

// EthHeader builds a rule-abiding header (chain id 4 rules) on top of parent (nil = genesis at height 100) with the given state root.
func EthHeader(parent *ethtypes.Header, name string, root []byte) *ethtypes.Header {
	h := gethHeader(parent, name, "", "")
	if root != nil {
		h.Root = common.BytesToHash(root)
	}
	return h
}

// ToProto converts to the client's header type.
func ToProto(h *ethtypes.Header) *ethclient.Header { return toProto(h) }
