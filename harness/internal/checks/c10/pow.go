package c10

import (
	"bytes"
	"encoding/hex"
	"encoding/json"
	"fmt"
	"math/big"
	"os"
	"sync"
	"time"

	sdk "github.com/cosmos/cosmos-sdk/types"
	"github.com/ethereum/go-ethereum/common"
	gethtypes "github.com/ethereum/go-ethereum/core/types"

	ethclient "github.com/teleport-network/teleport/x/xibc/clients/light-clients/eth/types"
	clienttypes "github.com/teleport-network/teleport/x/xibc/core/client/types"

	"verif/internal/checks/c07"
	"verif/internal/ev"
)

// PoW runs the difficulty / proof-of-work mutation alphabet on recorded main-net headers (chain id 1).
func PoW(r *ev.Run, tier string) (evals int64, err error) {
	bz, e := os.ReadFile(ev.Repo() + "/x/xibc/clients/light-clients/eth/types/testdata/update_headers.json")
	if e != nil {
		return 0, e
	}
	var hs []*ethclient.EthHeader
	if e := json.Unmarshal(bz, &hs); e != nil {
		return 0, e
	}
	if len(hs) < 3 {
		return 0, fmt.Errorf("too few recorded headers")
	}
	type tc struct {
		name       string
		mut        func(h *ethclient.Header)
		mustReject bool
	}
	cases := []tc{
		{"unmutated", func(h *ethclient.Header) {}, false},
		{"nonce+1", func(h *ethclient.Header) { h.Nonce++ }, true},
		{"mix-digest-flip", func(h *ethclient.Header) { h.MixDigest = append([]byte{}, h.MixDigest...); h.MixDigest[0] ^= 1 }, true},
		{"difficulty+1", func(h *ethclient.Header) {
			h.Difficulty = new(big.Int).Add(new(big.Int).SetBytes(h.Difficulty), big.NewInt(1)).Bytes()
		}, true},
		{"difficulty-1", func(h *ethclient.Header) {
			h.Difficulty = new(big.Int).Sub(new(big.Int).SetBytes(h.Difficulty), big.NewInt(1)).Bytes()
		}, true},
	}
	if tier == "thorough" {
		cases = append(cases,
			tc{"extra-33-bytes", func(h *ethclient.Header) { h.Extra = make([]byte, 33) }, true},
			tc{"time+1", func(h *ethclient.Header) { h.Time++ }, true},
			tc{"root-flip", func(h *ethclient.Header) { h.Root = append([]byte{}, h.Root...); h.Root[0] ^= 1 }, true},
			tc{"coinbase-flip", func(h *ethclient.Header) { h.Coinbase = append([]byte{}, h.Coinbase...); h.Coinbase[0] ^= 1 }, true},
		)
	}
	host := c07.NewHost()
	g := hs[0].ToHeader()
	var wg sync.WaitGroup
	var mu sync.Mutex
	for _, c := range cases {
		c := c
		wg.Add(1)
		go func() {
			defer wg.Done()
			ctx := host.Ctx(time.Unix(int64(hs[1].Time)+20, 0))
			cs := &ethclient.ClientState{Header: g, ChainId: 1, ContractAddress: common.HexToAddress("0x20000001").Bytes(), TrustingPeriod: 10_000_000, BlockDelay: 1}
			cons := &ethclient.ConsensusState{Timestamp: g.Time, Height: g.Height, Root: g.Root}
			if e := host.C.App.XIBCKeeper.ClientKeeper.CreateClient(ctx, "eth-main", cs, cons); e != nil {
				panic(e)
			}
			h := hs[1].ToHeader()
			c.mut(&h)
			var uerr error
			func() {
				defer func() {
					if rec := recover(); rec != nil {
						uerr = fmt.Errorf("panic: %v", rec)
					}
				}()
				if e := h.ValidateBasic(); e != nil {
					uerr = e
					return
				}
				uerr = host.C.App.XIBCKeeper.ClientKeeper.UpdateClient(ctx, "eth-main", &h)
			}()
			mu.Lock()
			defer mu.Unlock()
			evals++
			r.Outcome(fmt.Sprintf("main-net header %d %s accepted=%v", hs[1].Number, c.name, uerr == nil))
			if uerr == nil && c.mustReject {
				r.Violation("C10:pow-or-difficulty-mutation-accepted/"+c.name, fmt.Sprintf("main-net header %d with %s accepted on chain id 1", hs[1].Number, c.name), map[string]interface{}{"engine": "c10-pow", "case": c.name})
			}
			if uerr != nil && !c.mustReject {
				r.Violation("C10:valid-child-of-stored-header-rejected/recorded-main-net-header", fmt.Sprintf("recorded main-net header %d, child of the trusted header %d, rejected on chain id 1: %v", hs[1].Number, hs[0].Number, uerr), map[string]interface{}{"engine": "c10-pow", "case": c.name})
			}
		}()
	}
	wg.Wait()
	return evals, nil
}

// --- proof-of-work headers around an ethash epoch boundary -------------------------------------------------------

// epochFixture is a header tree on chain id 1 whose seals were mined once (16 cores, about five minutes; the miner is
// kept in tools/powmine.go.txt) against the epoch-0 cache (29999) and the epoch-1 cache (30000, 30001):
//
//	T(29998) - A1(29999) - A2(30000) - A3(30001)
//	         |           \ B2(30000) - B3(30001)
//	         \ L1(29999, 1000 s after T) - L2(30000)
//
// Height 30000 is the first block of ethash epoch 1. Every header obeys all rules relative to its parent; being mined,
// each is valid for any correct ethash verifier.
var epochFixture = []struct {
	name, parent string
	height       uint64
	dt           uint64
	tag          byte
	nonce        uint64
	mix, hash    string
}{
	{"T", "", 29998, 0, 0xa0, 0, "", "0xfe8f9099d23f6e81c24d70f475930c5708fc1534500b069cbf99cea53af84f8c"},
	{"A1", "T", 29999, 13, 0xa1, 255878, "232840bc19bbfaba63cc5a4b1ca36c2162411417ea5cb9ae7c524dfabe46932b", "0xa8dac7df391e46c224a7c67481502d03845af331ecc68045a80e8a52ca0370c3"},
	{"A2", "A1", 30000, 26, 0xa2, 37480, "0e6d4f6f7fa8bb7b86d01128a37d1e8fc95dde7e03dc59f3eec2ba5ca98a6344", "0xb075a6aa7a08fae8ded2ef67c818513e9614d211621d9c79ac578de272d3559b"},
	{"A3", "A2", 30001, 39, 0xa3, 39370, "6a8c860563f677fa1a0b4957b5a9b9b10c3d8935556401cb9a9baa60acd986bb", "0x1da97c4dab8cfb3025deeedb421e8807c30b1a286b1b677c25bd4baae44e9fd2"},
	{"B2", "A1", 30000, 27, 0xb2, 51049, "7de9b792e80a9352c91b801b53f3e0bfa80e5177b3b3b00f830f02859e46de84", "0x259246ad42678f0731ddaf72501bc95acbb4702737c89611c6f28c7c38298b89"},
	{"B3", "B2", 30001, 41, 0xb3, 170199, "471c478af91c2cb3cd277ffb4ca20e4700784b8dda7bfd4230311d9f7c45dd39", "0xf693d4c905de136199bc5d19eb506277e02946b7526711da143143b3a83ec796"},
	// a third branch whose first header comes 1000 s after its parent (the difficulty adjustment is clamped at -99 and
	// floored at the minimum difficulty) and whose second header follows after 13 s
	{"L1", "T", 29999, 1000, 0xc1, 49143, "8adde6c9274dbc6d139515197c72a091e1919f04604c97ebffb892b21abd61f5", "0x03ee6e2c3c7d536f74008fd189d7cbf7f5b71bc47413e62d84d7f9d9b4589062"},
	{"L2", "L1", 30000, 1013, 0xc2, 259874, "dacf10645e2ebf28810e282e5f6b3f58756ca27abbb93dce23263ffa835f40d0", "0xe5c1d3adba8f3393c9eb18bc651dddcc5ed768cb08af93ddaee85edd92f1a04d"},
}

const epochT0 = uint64(1700000000)

func epochHeaders() map[string]ethclient.Header {
	out := map[string]ethclient.Header{}
	for _, f := range epochFixture {
		root := make([]byte, 32)
		root[0], root[31] = f.tag, byte(f.height)
		mix := make([]byte, 32)
		if f.mix != "" {
			mix, _ = hex.DecodeString(f.mix)
		}
		parent := make([]byte, 32)
		if f.parent != "" {
			parent = common.HexToHash(epochHash(f.parent)).Bytes()
		}
		out[f.name] = ethclient.Header{
			ParentHash: parent, UncleHash: gethtypes.EmptyUncleHash[:], Coinbase: make([]byte, 20), Root: root,
			TxHash: gethtypes.EmptyRootHash[:], ReceiptHash: gethtypes.EmptyRootHash[:], Bloom: make([]byte, 256),
			Difficulty: big.NewInt(131072).Bytes(), Height: clienttypes.NewHeight(0, f.height), GasLimit: 8000000, GasUsed: 4000000,
			Time: epochT0 + f.dt, Extra: []byte("verif"), MixDigest: mix, Nonce: f.nonce, BaseFee: big.NewInt(1000000000).Bytes(),
		}
	}
	return out
}

func epochHash(name string) string {
	for _, f := range epochFixture {
		if f.name == name {
			return f.hash
		}
	}
	panic(name)
}

// EpochBoundary submits the mined tree in every order that puts parents before children (and, thorough, in orders with
// one premature child) to a proof-of-work client created at T, plus seal mutations of the first header of the new epoch.
func EpochBoundary(r *ev.Run, tier string) (evals int64) {
	hs := epochHeaders()
	for _, f := range epochFixture {
		h := hs[f.name]
		if got := h.Hash().Hex(); got != f.hash {
			r.Violation("C10:hash-of-a-fixed-header-changed", fmt.Sprintf("header %s (height %d) hashes to %s, its Ethereum block hash is %s", f.name, f.height, got, f.hash), map[string]interface{}{"engine": "c10-epoch", "header": f.name})
			return 1
		}
	}
	parentOf := map[string]string{}
	for _, f := range epochFixture {
		parentOf[f.name] = f.parent
	}
	var orders [][]string
	var rec func(done []string, rest []string, premature int)
	rec = func(done, rest []string, premature int) {
		if len(rest) == 0 {
			orders = append(orders, append([]string{}, done...))
			return
		}
		for i, n := range rest {
			ready := parentOf[n] == "T"
			for _, d := range done {
				if d == parentOf[n] {
					ready = true
				}
			}
			p := premature
			if !ready {
				if tier != "thorough" || premature > 0 {
					continue
				}
				p++
			}
			nr := append(append([]string{}, rest[:i]...), rest[i+1:]...)
			nd := append(append([]string{}, done...), n)
			if !ready {
				nr = append(nr, n) // refused now, submitted again later
			}
			rec(nd, nr, p)
		}
	}
	rec(nil, []string{"A1", "A2", "A3", "B2", "B3"}, 0)
	// the long-gap branch: quick — submitted as a block before and after each order of the other two branches (and an
	// unsealed copy of L1 first: a refused header must leave nothing behind either); thorough — at every position
	{
		base := orders
		orders = nil
		for _, o := range base {
			for pos := 0; pos <= len(o); pos++ {
				if tier != "thorough" && pos != 0 && pos != len(o) {
					continue
				}
				n := append(append(append([]string{}, o[:pos]...), "L1", "L2"), o[pos:]...)
				orders = append(orders, n)
				if pos == 0 {
					orders = append(orders, append([]string{"L1-unsealed"}, o...))
				}
			}
		}
	}
	type mut struct {
		name string
		f    func(h *ethclient.Header)
	}
	muts := []mut{
		{"nonce+1", func(h *ethclient.Header) { h.Nonce++ }},
		{"mix-digest-flip", func(h *ethclient.Header) { h.MixDigest = append([]byte{}, h.MixDigest...); h.MixDigest[0] ^= 1 }},
		{"seal-of-the-sibling", func(h *ethclient.Header) { b := hs["B2"]; h.Nonce, h.MixDigest = b.Nonce, b.MixDigest }},
	}
	host := c07.NewHost()
	var mu sync.Mutex
	var wg sync.WaitGroup
	sem := make(chan struct{}, 12)
	update := func(ctx sdk.Context, h ethclient.Header) (err error) {
		defer func() {
			if rec := recover(); rec != nil {
				err = fmt.Errorf("panic: %v", rec)
			}
		}()
		if e := h.ValidateBasic(); e != nil {
			return e
		}
		return host.C.App.XIBCKeeper.ClientKeeper.UpdateClient(ctx, "eth-pow", &h)
	}
	newClient := func() sdk.Context {
		ctx := host.Ctx(time.Unix(int64(epochT0)+1100, 0))
		g := hs["T"]
		cs := &ethclient.ClientState{Header: g, ChainId: 1, ContractAddress: common.HexToAddress("0x20000001").Bytes(), TrustingPeriod: 99_999_999, BlockDelay: 1}
		cons := &ethclient.ConsensusState{Timestamp: g.Time, Height: g.Height, Root: g.Root}
		if e := host.C.App.XIBCKeeper.ClientKeeper.CreateClient(ctx, "eth-pow", cs, cons); e != nil {
			panic(e)
		}
		return ctx
	}
	viol := func(sig, detail string, order []string) {
		mu.Lock()
		defer mu.Unlock()
		r.Violation("C10:"+sig, detail, map[string]interface{}{"engine": "c10-epoch", "order": order})
	}
	for _, order := range orders {
		order := order
		wg.Add(1)
		go func() {
			defer wg.Done()
			sem <- struct{}{}
			defer func() { <-sem }()
			ctx := newClient()
			accepted := map[string]bool{"T": true}
			for i, n := range order {
				if n == "L1-unsealed" {
					h := hs["L1"]
					h.Nonce++
					if err := update(ctx, h); err == nil {
						viol("pow-or-difficulty-mutation-accepted/long-gap-nonce+1", "header 1000 s after its parent accepted with another nonce", order[:i+1])
						return
					}
					continue
				}
				h := hs[n]
				err := update(ctx, h)
				want := accepted[parentOf[n]]
				mu.Lock()
				evals++
				r.Outcome(fmt.Sprintf("epoch-boundary tree: header at height %d, parent accepted=%v: accepted=%v", h.Height.RevisionHeight, want, err == nil))
				mu.Unlock()
				if want && err != nil {
					viol("valid-child-of-stored-header-rejected/pow-epoch-boundary", fmt.Sprintf("order %v: mined header %s (height %d, child of stored %s) rejected: %v", order[:i+1], n, h.Height.RevisionHeight, parentOf[n], err), order[:i+1])
					return
				}
				if !want && err == nil {
					viol("header-accepted-before-parent/pow-epoch-boundary", fmt.Sprintf("order %v: header %s accepted although its parent %s was never accepted", order[:i+1], n, parentOf[n]), order[:i+1])
					return
				}
				if err != nil {
					continue
				}
				accepted[n] = true
				cs, _ := host.C.App.XIBCKeeper.ClientKeeper.GetClientState(ctx, "eth-pow")
				if cs.GetLatestHeight().GetRevisionHeight() != h.Height.RevisionHeight || cs.(*ethclient.ClientState).Header.Hash().Hex() != epochHash(n) {
					viol("accepted-header-is-not-head/pow-epoch-boundary", fmt.Sprintf("order %v: after accepting %s the head is height %s", order[:i+1], n, cs.GetLatestHeight()), order[:i+1])
					return
				}
				for a := n; a != ""; a = parentOf[a] {
					ah := hs[a]
					cons, ok := host.C.App.XIBCKeeper.ClientKeeper.GetClientConsensusState(ctx, "eth-pow", ah.Height)
					if !ok || !bytes.Equal(cons.GetRoot(), ah.Root) {
						viol("consensus-state-on-ancestry-differs/pow-epoch-boundary", fmt.Sprintf("order %v: head %s, consensus state at %s is not ancestor %s's root", order[:i+1], n, ah.Height, a), order[:i+1])
						return
					}
				}
			}
		}()
	}
	for _, m := range muts {
		m := m
		wg.Add(1)
		go func() {
			defer wg.Done()
			sem <- struct{}{}
			defer func() { <-sem }()
			ctx := newClient()
			if err := update(ctx, hs["A1"]); err != nil {
				return // reported by the orders above
			}
			h := hs["A2"]
			m.f(&h)
			err := update(ctx, h)
			mu.Lock()
			evals++
			r.Outcome(fmt.Sprintf("epoch-boundary header %s accepted=%v", m.name, err == nil))
			mu.Unlock()
			if err == nil {
				viol("pow-or-difficulty-mutation-accepted/epoch-boundary-"+m.name, "first header of ethash epoch 1 accepted with "+m.name, []string{"A1", "A2*"})
			}
		}()
	}
	wg.Wait()
	mu.Lock()
	r.Count("pow_epoch_boundary_orders", int64(len(orders)))
	mu.Unlock()
	return evals
}
