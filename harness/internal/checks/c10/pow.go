package c10

import (
	"encoding/json"
	"fmt"
	"math/big"
	"os"
	"sync"
	"time"

	"github.com/ethereum/go-ethereum/common"

	ethclient "github.com/teleport-network/teleport/x/xibc/clients/light-clients/eth/types"

	"verif/internal/checks/c07"
	"verif/internal/ev"
)

// PoW runs the difficulty / proof-of-work mutation alphabet on recorded main-net headers (chain id 1).
func PoW(r *ev.Run, tier string) (evals int64, err error) {
	bz, e := os.ReadFile(ev.Repo() + "/x/xibc/clients/light-clients/eth/types/testdata/update_headers.json")
	if e != nil {
		return 0, e
	}
	var hs []*ethclient.EthHeader
	if e := json.Unmarshal(bz, &hs); e != nil {
		return 0, e
	}
	if len(hs) < 3 {
		return 0, fmt.Errorf("too few recorded headers")
	}
	type tc struct {
		name       string
		mut        func(h *ethclient.Header)
		mustReject bool
	}
	cases := []tc{
		{"unmutated", func(h *ethclient.Header) {}, false},
		{"nonce+1", func(h *ethclient.Header) { h.Nonce++ }, true},
		{"mix-digest-flip", func(h *ethclient.Header) { h.MixDigest = append([]byte{}, h.MixDigest...); h.MixDigest[0] ^= 1 }, true},
		{"difficulty+1", func(h *ethclient.Header) {
			h.Difficulty = new(big.Int).Add(new(big.Int).SetBytes(h.Difficulty), big.NewInt(1)).Bytes()
		}, true},
		{"difficulty-1", func(h *ethclient.Header) {
			h.Difficulty = new(big.Int).Sub(new(big.Int).SetBytes(h.Difficulty), big.NewInt(1)).Bytes()
		}, true},
	}
	if tier == "thorough" {
		cases = append(cases,
			tc{"extra-33-bytes", func(h *ethclient.Header) { h.Extra = make([]byte, 33) }, true},
			tc{"time+1", func(h *ethclient.Header) { h.Time++ }, true},
			tc{"root-flip", func(h *ethclient.Header) { h.Root = append([]byte{}, h.Root...); h.Root[0] ^= 1 }, true},
			tc{"coinbase-flip", func(h *ethclient.Header) { h.Coinbase = append([]byte{}, h.Coinbase...); h.Coinbase[0] ^= 1 }, true},
		)
	}
	host := c07.NewHost()
	g := hs[0].ToHeader()
	var wg sync.WaitGroup
	var mu sync.Mutex
	for _, c := range cases {
		c := c
		wg.Add(1)
		go func() {
			defer wg.Done()
			ctx := host.Ctx(time.Unix(int64(hs[1].Time)+20, 0))
			cs := &ethclient.ClientState{Header: g, ChainId: 1, ContractAddress: common.HexToAddress("0x20000001").Bytes(), TrustingPeriod: 10_000_000, BlockDelay: 1}
			cons := &ethclient.ConsensusState{Timestamp: g.Time, Height: g.Height, Root: g.Root}
			if e := host.C.App.XIBCKeeper.ClientKeeper.CreateClient(ctx, "eth-main", cs, cons); e != nil {
				panic(e)
			}
			h := hs[1].ToHeader()
			c.mut(&h)
			var uerr error
			func() {
				defer func() {
					if rec := recover(); rec != nil {
						uerr = fmt.Errorf("panic: %v", rec)
					}
				}()
				if e := h.ValidateBasic(); e != nil {
					uerr = e
					return
				}
				uerr = host.C.App.XIBCKeeper.ClientKeeper.UpdateClient(ctx, "eth-main", &h)
			}()
			mu.Lock()
			defer mu.Unlock()
			evals++
			r.Outcome(fmt.Sprintf("main-net header %d %s accepted=%v", hs[1].Number, c.name, uerr == nil))
			if uerr == nil && c.mustReject {
				r.Violation("C10:pow-or-difficulty-mutation-accepted/"+c.name, fmt.Sprintf("main-net header %d with %s accepted on chain id 1", hs[1].Number, c.name), map[string]interface{}{"engine": "c10-pow", "case": c.name})
			}
			if uerr != nil && !c.mustReject {
				r.Note(fmt.Sprintf("recorded main-net header rejected: %v (environment problem? informational)", uerr))
				r.Outcome("recorded header rejected (informational)")
			}
		}()
	}
	wg.Wait()
	return evals, nil
}
