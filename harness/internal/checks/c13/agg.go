package c13

import (
	"github.com/ethereum/go-ethereum/common"
	"github.com/cosmos/cosmos-sdk/x/params"
	paramproposal "github.com/cosmos/cosmos-sdk/x/params/types/proposal"
	"time"

	sdk "github.com/cosmos/cosmos-sdk/types"
	banktypes "github.com/cosmos/cosmos-sdk/x/bank/types"

	aggregatetypes "github.com/teleport-network/teleport/x/aggregate/types"
	rvtypes "github.com/teleport-network/teleport/x/rvesting/types"

	"verif/internal/checks/c07"
	"verif/internal/world"
)

// Meta builds bank metadata for a coin.
func Meta(base, name string) banktypes.Metadata {
	return banktypes.Metadata{
		Description: "coin " + base,
		Base:        base,
		DenomUnits:  []*banktypes.DenomUnit{{Denom: base, Exponent: 0}, {Denom: "m" + base, Exponent: 6}},
		Name:        name,
		Symbol:      "SYM" + base,
		Display:     base,
	}
}

// aggregateStates returns contexts holding registry states built through the real keeper functions.
func aggregateStates(h *c07.Host) []sdk.Context {
	var out []sdk.Context
	now := time.Unix(1_700_000_000, 0)
	mk := func(f func(ctx sdk.Context)) {
		ctx := h.Ctx(now)
		h.C.App.EvmKeeper.WithChainID(ctx)
		f(ctx)
		out = append(out, ctx)
	}
	k := h.C.App.AggregateKeeper
	mint := func(ctx sdk.Context, denoms ...string) {
		for _, d := range denoms {
			if err := h.C.App.BankKeeper.MintCoins(ctx, aggregatetypes.ModuleName, sdk.NewCoins(sdk.NewInt64Coin(d, 1000))); err != nil {
				panic(err)
			}
		}
	}
	// 1: empty registry, non-default rvesting params
	mk(func(ctx sdk.Context) {
		h.C.App.RVestingKeeper.SetParams(ctx, rvtypes.Params{EnableVesting: true, PerBlockReward: sdk.NewCoins(sdk.NewInt64Coin("aaa", 3), sdk.NewInt64Coin("bbb", 1))})
	})
	// 1b: every reward list of a small alphabet that the parameter validators accept (unsorted, zero amounts, three
	// denominations), set through the real parameter-change handler, with vesting enabled and disabled
	for _, rw := range []string{
		`[{"denom":"bbb","amount":"3"},{"denom":"aaa","amount":"1"}]`,
		`[{"denom":"aaa","amount":"0"},{"denom":"bbb","amount":"2"}]`,
		`[{"denom":"aaa","amount":"0"}]`,
		`[{"denom":"ccc","amount":"1"},{"denom":"aaa","amount":"2"},{"denom":"bbb","amount":"0"}]`,
		`[{"denom":"aaa","amount":"340282366920938463463374607431768211455"}]`,
	} {
		for _, en := range []string{"true", "false"} {
			rw, en := rw, en
			mk(func(ctx sdk.Context) {
				hd := params.NewParamChangeProposalHandler(h.C.App.ParamsKeeper)
				for _, ch := range []paramproposal.ParamChange{{Subspace: rvtypes.ModuleName, Key: "PerBlockReward", Value: rw}, {Subspace: rvtypes.ModuleName, Key: "EnableVesting", Value: en}} {
					cctx, write := ctx.CacheContext()
					if err := hd(cctx, paramproposal.NewParameterChangeProposal("t", "d", []paramproposal.ParamChange{ch})); err == nil {
						write()
					}
				}
			})
		}
	}
	// 2: a module-owned pair with two denominations, an external pair, one disabled
	mk(func(ctx sdk.Context) {
		mint(ctx, "acoin", "bcoin", "ccoin")
		p, err := k.RegisterCoin(ctx, Meta("acoin", "acoin"))
		if err != nil {
			panic(err)
		}
		if _, err := k.AddCoin(ctx, Meta("bcoin", "Coin B"), p.ERC20Address); err != nil {
			panic(err)
		}
		if _, err := k.RegisterCoin(ctx, Meta("ccoin", "Coin C")); err != nil {
			panic(err)
		}
		tok := world.DeployERC20From(h.C, ctx, h.C.Accounts["r1"].Eth, "ext")
		if _, err := k.RegisterERC20(ctx, tok); err != nil {
			panic(err)
		}
		if _, err := k.ToggleRelay(ctx, "ccoin"); err != nil {
			panic(err)
		}
		params := k.GetParams(ctx)
		params.EnableEVMHook = !params.EnableEVMHook
		k.SetParams(ctx, params)
	})
	// 3: a pair with two denominations whose contract self-destructed; a conversion triggered the clean-up (registry after removal)
	mk(func(ctx sdk.Context) {
		mint(ctx, "acoin", "bcoin", "ccoin")
		p, err := k.RegisterCoin(ctx, Meta("acoin", "Coin A"))
		if err != nil {
			panic(err)
		}
		if _, err := k.AddCoin(ctx, Meta("bcoin", "Coin B"), p.ERC20Address); err != nil {
			panic(err)
		}
		if _, err := k.RegisterCoin(ctx, Meta("ccoin", "Coin C")); err != nil {
			panic(err)
		}
		if err := h.C.App.EvmKeeper.DeleteAccount(ctx, common.HexToAddress(p.ERC20Address)); err != nil {
			panic(err)
		}
		r1 := h.C.Accounts["r1"]
		if err := h.C.App.BankKeeper.SendCoinsFromModuleToAccount(ctx, aggregatetypes.ModuleName, r1.Acc, sdk.NewCoins(sdk.NewInt64Coin("acoin", 5))); err != nil {
			panic(err)
		}
		// the conversion finds the contract gone and removes the pair (no error, nothing moves)
		if _, err := k.ConvertCoin(sdk.WrapSDKContext(ctx), aggregatetypes.NewMsgConvertCoin(sdk.NewInt64Coin("acoin", 1), r1.Eth, r1.Acc)); err != nil {
			panic(err)
		}
		if _, found := k.GetTokenPair(ctx, k.GetDenomMap(ctx, "acoin")); found {
			panic("fixture: the pair of the destroyed contract was not removed")
		}
	})
	return out
}
