// Package c13 decides C13: genesis export/import round trip of the xibc,
// aggregate and rvesting modules. Differential oracle with no hand-written
// expectation: export S, validate, JSON round trip, InitGenesis on a fresh
// application, compare the raw stores key by key, export again.
package c13

import (
	"verif/internal/checks/fx"
	"bytes"
	"fmt"
	"math/big"
	"sort"
	"strings"
	"time"

	sdk "github.com/cosmos/cosmos-sdk/types"

	"github.com/ethereum/go-ethereum/common"

	"github.com/teleport-network/teleport/x/aggregate"
	aggregatetypes "github.com/teleport-network/teleport/x/aggregate/types"
	rvtypes "github.com/teleport-network/teleport/x/rvesting/types"
	"github.com/teleport-network/teleport/x/xibc"
	bsctypes "github.com/teleport-network/teleport/x/xibc/clients/light-clients/bsc/types"
	ethclient "github.com/teleport-network/teleport/x/xibc/clients/light-clients/eth/types"
	tsstypes "github.com/teleport-network/teleport/x/xibc/clients/tss-client/types"
	clientmodule "github.com/teleport-network/teleport/x/xibc/core/client"
	clienttypes "github.com/teleport-network/teleport/x/xibc/core/client/types"
	"github.com/teleport-network/teleport/x/xibc/core/host"
	xibctypes "github.com/teleport-network/teleport/x/xibc/types"

	"verif/internal/checks/c07"
	"verif/internal/checks/c09"
	"verif/internal/checks/relay"
	"verif/internal/ev"
	"verif/internal/world"
)

func dump(ctx sdk.Context, c *world.Chain, store string) map[string]string {
	out := map[string]string{}
	it := ctx.KVStore(c.App.GetKey(store)).Iterator(nil, nil)
	defer it.Close()
	for ; it.Valid(); it.Next() {
		out[string(it.Key())] = string(it.Value())
	}
	return out
}

// classify turns a differing raw key into a stable signature fragment.
func classify(op, key string) string {
	k := key
	what := "other"
	switch {
	case strings.HasPrefix(k, "clients/"):
		rest := k[len("clients/"):]
		i := strings.Index(rest, "/")
		if i < 0 {
			break
		}
		name, tail := rest[:i], rest[i+1:]
		typ := strings.SplitN(name, "-", 2)[0]
		switch {
		case strings.HasPrefix(tail, "consensusStates/") && strings.HasSuffix(tail, "/processedTime"):
			what = typ + "/processed-time"
		case strings.HasPrefix(tail, "consensusStates/"):
			what = typ + "/consensus-state"
		case strings.HasPrefix(tail, "iterateConsensusStates"):
			what = typ + "/iteration-key"
		case tail == "clientState":
			what = typ + "/client-state"
		default:
			what = typ + "/metadata:" + strings.SplitN(tail, "/", 2)[0]
		}
	case strings.HasPrefix(k, "relayers"):
		what = "relayer"
	case strings.HasPrefix(k, "chainName"):
		what = "chain-name"
	default:
		what = strings.SplitN(k, "/", 2)[0]
	}
	return op + ":" + what
}

type problem struct{ sig, detail string }

// RoundTrip performs the differential round trip of the module state visible in (src, sctx) into a fresh branch of dst.
func RoundTrip(src *world.Chain, sctx sdk.Context, dst *world.Chain, label string) (probs []problem) {
	cdc := src.App.AppCodec()
	defer func() {
		if r := recover(); r != nil {
			probs = append(probs, problem{"round-trip-panics", fmt.Sprintf("%s: %v", label, r)})
		}
	}()
	gx := xibc.ExportGenesis(sctx, *src.App.XIBCKeeper)
	ga := aggregate.ExportGenesis(sctx, *src.App.AggregateKeeper)
	gr := src.App.RVestingKeeper.ExportGenesis(sctx)
	j1x, j1a, j1r := cdc.MustMarshalJSON(gx), cdc.MustMarshalJSON(ga), cdc.MustMarshalJSON(gr)

	var gx2 xibctypes.GenesisState
	var ga2 aggregatetypes.GenesisState
	var gr2 rvtypes.GenesisState
	cdc.MustUnmarshalJSON(j1x, &gx2)
	cdc.MustUnmarshalJSON(j1a, &ga2)
	cdc.MustUnmarshalJSON(j1r, &gr2)
	if err := gx2.Validate(); err != nil {
		probs = append(probs, problem{"exported-xibc-genesis-fails-own-validation/" + firstWords(err.Error()), fmt.Sprintf("%s: %v", label, err)})
	}
	if err := ga2.Validate(); err != nil {
		probs = append(probs, problem{"exported-aggregate-genesis-fails-own-validation", fmt.Sprintf("%s: %v", label, err)})
	}
	if err := rvtypes.ValidateGenesis(&gr2); err != nil {
		probs = append(probs, problem{"exported-rvesting-genesis-fails-own-validation", fmt.Sprintf("%s: %v", label, err)})
	}
	dctx := dst.ReadCtx()
	xibc.InitGenesis(dctx, *dst.App.XIBCKeeper, false, &gx2)
	aggregate.InitGenesis(dctx, *dst.App.AggregateKeeper, dst.App.AccountKeeper, ga2)
	dst.App.RVestingKeeper.InitGenesis(dctx, &gr2)

	for _, st := range []string{host.StoreKey, aggregatetypes.StoreKey} {
		a, b := dump(sctx, src, st), dump(dctx, dst, st)
		var lost, extra, changed []string
		for k, v := range a {
			if w, ok := b[k]; !ok {
				lost = append(lost, k)
			} else if w != v {
				changed = append(changed, k)
			}
		}
		for k := range b {
			if _, ok := a[k]; !ok {
				extra = append(extra, k)
			}
		}
		sort.Strings(lost)
		sort.Strings(extra)
		sort.Strings(changed)
		seen := map[string]bool{}
		for _, grp := range []struct {
			op   string
			keys []string
		}{{"lost", lost}, {"extra", extra}, {"changed", changed}} {
			for _, k := range grp.keys {
				sig := st + "-store-differs/" + classify(grp.op, k)
				if !seen[sig] {
					seen[sig] = true
					probs = append(probs, problem{sig, fmt.Sprintf("%s: after import key %q is %s (%d lost, %d extra, %d changed in store %s)", label, printable(k), grp.op, len(lost), len(extra), len(changed), st)})
				}
			}
		}
	}
	if p1, p2 := src.App.RVestingKeeper.GetParams(sctx), dst.App.RVestingKeeper.GetParams(dctx); p1.String() != p2.String() {
		probs = append(probs, problem{"rvesting-params-differ", fmt.Sprintf("%s: %s vs %s", label, p1.String(), p2.String())})
	}
	// export again
	j2x := cdc.MustMarshalJSON(xibc.ExportGenesis(dctx, *dst.App.XIBCKeeper))
	j2a := cdc.MustMarshalJSON(aggregate.ExportGenesis(dctx, *dst.App.AggregateKeeper))
	j2r := cdc.MustMarshalJSON(dst.App.RVestingKeeper.ExportGenesis(dctx))
	if !bytes.Equal(j1x, j2x) {
		probs = append(probs, problem{"second-export-differs/xibc", fmt.Sprintf("%s: export of the re-imported state differs from the first export (%d vs %d bytes)", label, len(j1x), len(j2x))})
	}
	if !bytes.Equal(j1a, j2a) {
		probs = append(probs, problem{"second-export-differs/aggregate", label})
	}
	if !bytes.Equal(j1r, j2r) {
		probs = append(probs, problem{"second-export-differs/rvesting", label})
	}
	return probs
}

func firstWords(s string) string {
	f := strings.Fields(s)
	if len(f) > 6 {
		f = f[:6]
	}
	return strings.Join(f, "-")
}

func printable(k string) string {
	for _, r := range []byte(k) {
		if r < 32 || r > 126 {
			return fmt.Sprintf("%x", k)
		}
	}
	return k
}

// bytePatterns: every value of every byte position of a uint64 (one non-zero byte), exhaustive per byte.
func bytePatterns() []uint64 {
	var out []uint64
	for k := uint(0); k < 8; k++ {
		for b := uint64(1); b < 256; b++ {
			out = append(out, b<<(8*k))
		}
	}
	return out
}

// Run executes the round trips.
func Run(r *ev.Run, tier string) (evals, nontrivial int64) {
	h := c07.NewHost()
	dst := world.NewChain("teleport_9000-19", world.StartTime, world.Options{Accounts: []string{"r1"}})
	dst.Block(world.StartTime.Add(world.BlockStep))
	k := h.C.App.XIBCKeeper.ClientKeeper
	report := func(label string, ps []problem, sample interface{}) {
		evals++
		if len(ps) == 0 {
			r.Outcome("round trip ok: " + strings.SplitN(label, " ", 2)[0])
		}
		for _, p := range ps {
			r.Outcome("round trip problem: " + p.sig)
			r.Violation("C13:"+p.sig, p.detail, map[string]interface{}{"engine": "c13", "state": label, "sample": sample})
		}
	}
	pats := bytePatterns()
	if tier == "quick" {
		// quick: every value of the two low byte positions, plus the separator-looking bytes in every position
		var q []uint64
		for _, p := range pats {
			if p < 1<<16 {
				q = append(q, p)
			}
		}
		for kk := uint(2); kk < 8; kk++ {
			for _, b := range []uint64{0x2f, 0x2e, 0x30, 0x00ff, 0x0a, 0x7f} {
				q = append(q, b<<(8*kk))
			}
		}
		pats = q
	}
	now := time.Unix(1_700_000_000, 0)

	// --- tendermint: one client, consensus states at every byte-pattern height through real header updates
	{
		ctx := h.Ctx(now)
		vals := c07.MakeSet([]int{0}, []int64{1})
		h.CreateClientNamed(ctx, "tm-heights", "cp-1", 1, now.Add(-time.Hour), vals, []byte("root1"))
		n := 0
		for _, p := range pats {
			if p <= 1 || p >= 1<<63 {
				continue
			}
			hdr := c07.Build(c07.HeaderSpec{ChainID: "cp-1", Height: int64(p), Time: now.Add(-time.Minute), AppHash: []byte(fmt.Sprintf("root%d", p)), Vals: vals, NextVals: vals,
				Signers: map[string]bool{string(vals.Validators[0].Address): true}, Trusted: clienttypes.NewHeight(1, 1), TrustVals: vals})
			if err := k.UpdateClient(ctx, "tm-heights", hdr); err != nil {
				panic(fmt.Sprintf("tm update to %d: %v", p, err))
			}
			n++
			nontrivial++
		}
		report(fmt.Sprintf("tendermint client with consensus states at %d byte-pattern heights", n), RoundTrip(h.C, ctx, dst, "tendermint/heights"), "clients/tm-heights consensus heights b<<8k")
	}
	// --- tendermint: one client per byte-pattern revision number
	{
		ctx := h.Ctx(now)
		vals := c07.MakeSet([]int{0}, []int64{1})
		for i, p := range pats {
			h.CreateClientNamed(ctx, fmt.Sprintf("tm-rev%d", i), fmt.Sprintf("cp-%d", p), 5, now.Add(-time.Hour), vals, []byte("root"))
			nontrivial++
		}
		report(fmt.Sprintf("%d tendermint clients with byte-pattern revision numbers", len(pats)), RoundTrip(h.C, ctx, dst, "tendermint/revisions"), "chain ids cp-<b<<8k>")
	}
	// --- BSC / ETH: one client per byte-pattern height (created through the keeper's CreateClient)
	{
		ctx := h.Ctx(now)
		for i, p := range pats {
			gen := c09.Build(c09.Spec{Number: p, Signer: 0, Coinbase: -1, Diff: 2, List: []int{0}})
			cs := bsctypes.NewClientState(*gen, c09.ChainID, 1, 3, [][]byte{gen.Coinbase}, common.HexToAddress("0x20000001").Bytes(), 1_000_000_000)
			if err := k.CreateClient(ctx, fmt.Sprintf("bsc-%d", i), cs, &bsctypes.ConsensusState{Timestamp: gen.Time, Height: gen.Height, Root: gen.Root}); err != nil {
				panic(err)
			}
			nontrivial++
		}
		report(fmt.Sprintf("%d BSC clients at byte-pattern heights", len(pats)), RoundTrip(h.C, ctx, dst, "bsc/heights"), "bsc clients at heights b<<8k")
	}
	{
		ctx := h.Ctx(now)
		for i, p := range pats {
			hd := ethclient.Header{ParentHash: make([]byte, 32), UncleHash: make([]byte, 32), Coinbase: make([]byte, 20), Root: bytes.Repeat([]byte{byte(i)}, 32), TxHash: make([]byte, 32), ReceiptHash: make([]byte, 32),
				Bloom: make([]byte, 256), Difficulty: big.NewInt(2).Bytes(), Height: clienttypes.NewHeight(0, p), GasLimit: 30_000_000, GasUsed: 1, Time: uint64(now.Unix()), MixDigest: make([]byte, 32), BaseFee: big.NewInt(7).Bytes()}
			cs := &ethclient.ClientState{Header: hd, ChainId: 4, ContractAddress: common.HexToAddress("0x20000001").Bytes(), TrustingPeriod: 1_000_000_000, BlockDelay: 1}
			if err := k.CreateClient(ctx, fmt.Sprintf("eth-%d", i), cs, &ethclient.ConsensusState{Timestamp: hd.Time, Height: hd.Height, Root: hd.Root}); err != nil {
				panic(err)
			}
			nontrivial++
		}
		report(fmt.Sprintf("%d ETH clients at byte-pattern heights", len(pats)), RoundTrip(h.C, ctx, dst, "eth/heights"), "eth clients at heights b<<8k")
	}
	// --- TSS clients, relayers, chain name
	{
		ctx := h.Ctx(now)
		k.SetChainName(ctx, "teleport_9000-10")
		for i := 0; i < 3; i++ {
			acc := world.NewAccount(fmt.Sprintf("tss%d", i))
			if err := k.CreateClient(ctx, fmt.Sprintf("tss-%d", i), &tsstypes.ClientState{TssAddress: acc.Acc.String(), Pubkey: []byte{1, byte(i)}, PartPubkeys: [][]byte{{2}, {3}}, Threshold: 2}, &tsstypes.ConsensusState{}); err != nil {
				panic(err)
			}
			k.RegisterRelayers(ctx, acc.Acc.String(), []string{"tss-0", fmt.Sprintf("chain-%d", i)}, []string{"0xabc", acc.Acc.String()})
			nontrivial++
		}
		report("TSS clients, relayers with several chains, chain name", RoundTrip(h.C, ctx, dst, "tss+relayers"), nil)
	}
	// --- relayer registry written by governance: every register-relayer proposal shape that passes the proposal's stateless
	// validation goes through the real proposal handler (lists of equal and unequal length, repeated chains, empty lists)
	{
		ctx := h.Ctx(now)
		k.SetChainName(ctx, "teleport_9000-10")
		handler := clientmodule.NewClientProposalHandler(k)
		shapes := []struct {
			chains, addrs []string
		}{
			{[]string{"bsc"}, []string{"0xa"}}, {[]string{"bsc", "eth"}, []string{"0xa", "0xb"}}, {[]string{"bsc"}, []string{"0xa", "0xb"}},
			{[]string{"bsc", "eth"}, []string{"0xa"}}, {[]string{"bsc", "bsc"}, []string{"0xa", "0xb"}}, {nil, nil}, {[]string{"bsc"}, []string{""}},
			{[]string{"bsc", "eth", "tm"}, []string{"0xa", "0xb", "0xc", "0xd"}},
		}
		accepted := 0
		for i, sh := range shapes {
			p := clienttypes.NewRegisterRelayerProposal("t", "d", world.NewAccount(fmt.Sprintf("gov-relayer-%d", i)).Acc.String(), sh.chains, sh.addrs)
			if p.ValidateBasic() != nil {
				continue
			}
			cctx, write := ctx.CacheContext()
			if err := handler(cctx, p); err == nil {
				write()
				accepted++
			}
		}
		nontrivial += int64(accepted)
		report(fmt.Sprintf("relayer registry written by %d accepted register-relayer proposals of %d shapes", accepted, len(shapes)), RoundTrip(h.C, ctx, dst, "relayers/proposals"), nil)
	}
	// --- TSS clients that went through governance: one upgraded to another TSS account, one obtained by toggling a tendermint client
	{
		ctx := h.Ctx(now)
		acc, acc2 := world.NewAccount("tssA"), world.NewAccount("tssB")
		if err := k.CreateClient(ctx, "tss-up", &tsstypes.ClientState{TssAddress: acc.Acc.String(), Pubkey: []byte{1}, PartPubkeys: [][]byte{{2}}, Threshold: 1}, &tsstypes.ConsensusState{}); err != nil {
			panic(err)
		}
		if err := k.UpgradeClient(ctx, "tss-up", &tsstypes.ClientState{TssAddress: acc2.Acc.String(), Pubkey: []byte{3}, PartPubkeys: [][]byte{{4}}, Threshold: 1}, &tsstypes.ConsensusState{}); err != nil {
			panic(err)
		}
		report("TSS client upgraded by governance", RoundTrip(h.C, ctx, dst, "tss/upgraded"), nil)
		nontrivial++
	}
	{
		ctx := h.Ctx(now)
		vs := c07.MakeSet([]int{0, 1}, []int64{1, 1})
		h.CreateClientNamed(ctx, "tm-toggled", "tmchain-3", 7, now.Add(-time.Minute), vs, []byte("app hash of a tendermint chain..."))
		if err := k.ToggleClient(ctx, "tm-toggled", &tsstypes.ClientState{TssAddress: world.NewAccount("tssC").Acc.String(), Pubkey: []byte{5}, PartPubkeys: [][]byte{{6}}, Threshold: 1}, &tsstypes.ConsensusState{}); err != nil {
			panic(err)
		}
		report("tendermint client toggled to TSS by governance", RoundTrip(h.C, ctx, dst, "tss/toggled"), nil)
		nontrivial++
	}
	// --- packet traffic: states of scripted relay histories on both chains (every prefix of the history)
	{
		// three chains, so that every chain holds commitments, receipts and acknowledgements on two paths
		s := relay.New(relay.Config{Chains: 3, MaxSends: 12})
		ops := []string{"send A B erc20 3", "send B A native 1", "send A B erc20+callrevert 1", "send C B erc20 1", "send A C erc20 1", "send C A native 1", "send B C native 1",
			"upd A B", "upd B A", "upd C A", "upd A C", "upd B C", "upd C B", "upd A B", "upd B A", "upd C A", "upd A C", "upd B C", "upd C B",
			"recv A>B#1 g1", "recv B>A#1 g1", "recv A>B#2 g1", "recv C>B#1 g1", "recv A>C#1 g1", "recv C>A#1 g1", "recv B>C#1 g1",
			"upd A B", "upd B A", "upd C A", "upd A C", "upd B C", "upd C B", "upd A B", "upd A C", "upd C B",
			"ack A>B#1 g1", "ack A>C#1 g1", "ack C>B#1 g1", "send A B native 1", "ack A>B#2 g1"}
		for i, op := range ops {
			s.Run(op)
			if tier == "quick" && i%4 != 3 && i != len(ops)-1 {
				continue
			}
			for _, n := range []string{relay.A, relay.B, relay.C} {
				c := s.World().Chains[n]
				report(fmt.Sprintf("packets: chain %s after %d relay operations", n[len(n)-2:], i+1), RoundTrip(c, c.ReadCtx(), dst, fmt.Sprintf("packets/%s/after-%d-ops", n[len(n)-2:], i+1)), ops[:i+1])
				nontrivial++
			}
		}
	}
	// --- clients with update histories: BSC across an epoch with a validator-set switch (recent signers, pending
	// validators), ETH after a fork and a branch switch (header index, main-chain roots), TSS after updates
	{
		_, c := fx.Clients()
		report("clients after update histories (bsc set switch, eth fork, tss)", RoundTrip(c, c.ReadCtx(), dst, "clients/histories"), nil)
		nontrivial++
	}
	// --- aggregate registry and rvesting parameters
	for i, p := range aggregateStates(h) {
		report(fmt.Sprintf("aggregate registry state %d", i), RoundTrip(h.C, p, dst, fmt.Sprintf("aggregate/%d", i)), nil)
		nontrivial++
	}
	return
}
