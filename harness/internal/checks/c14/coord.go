package c14

import (
	"bytes"
	"encoding/json"
	"fmt"
	"os"
	"os/exec"
	"path/filepath"
	"sort"
	"strings"
	"sync"

	"verif/internal/ev"
)

// env is one point of the environment lattice.
type env struct {
	Procs    string // GOMAXPROCS
	Tmp      string // "default" | "other" | "missing"
	MapOrder string // "" (uninstrumented binary) | ascending | descending | rotated
	Clock    string // "" (real wall clock) | past (1970) | future (+30 years): value returned by every time.Now()/time.Since in teleport's own packages
}

func (e env) String() string {
	m := e.MapOrder
	if m == "" {
		m = "native"
	}
	c := e.Clock
	if c == "" {
		c = "real"
	}
	return fmt.Sprintf("GOMAXPROCS=%s TMPDIR=%s maporder=%s wallclock=%s", e.Procs, e.Tmp, m, c)
}

// runOne runs one scenario process in working directory dir (which is also the parent of its HOME).
func runOne(bin, scenario string, e env, scratch, dir string) ([]string, error) {
	cmd := exec.Command(bin, "c14run", scenario)
	os.MkdirAll(filepath.Join(dir, "home"), 0o755)
	cmd.Dir = dir
	envv := []string{"HOME=" + filepath.Join(dir, "home")}
	for _, kv := range os.Environ() {
		if strings.HasPrefix(kv, "HOME=") {
			continue
		}
		if strings.HasPrefix(kv, "GOMAXPROCS=") || strings.HasPrefix(kv, "TMPDIR=") || strings.HasPrefix(kv, "VERIF_MAPORDER=") || strings.HasPrefix(kv, "VERIF_CLOCK=") {
			continue
		}
		envv = append(envv, kv)
	}
	envv = append(envv, "GOMAXPROCS="+e.Procs)
	switch e.Tmp {
	case "other":
		d := filepath.Join(scratch, "alt-tmp")
		os.MkdirAll(d, 0o755)
		envv = append(envv, "TMPDIR="+d)
	case "missing":
		envv = append(envv, "TMPDIR="+filepath.Join(scratch, "does", "not", "exist"))
	}
	if e.MapOrder != "" {
		envv = append(envv, "VERIF_MAPORDER="+e.MapOrder)
	}
	if e.Clock != "" {
		envv = append(envv, "VERIF_CLOCK="+e.Clock)
	}
	cmd.Env = envv
	var out, errb bytes.Buffer
	cmd.Stdout, cmd.Stderr = &out, &errb
	if err := cmd.Run(); err != nil {
		return nil, fmt.Errorf("%v: %s", err, errb.String())
	}
	var lines []string
	for _, l := range strings.Split(strings.TrimSpace(out.String()), "\n") {
		if strings.HasPrefix(l, "teleport_") { // trace lines only (the code under test may print to stdout)
			lines = append(lines, l)
		}
	}
	return lines, nil
}

// Run executes the lattice. harnessDir is the harness module directory; scratch is removed by the caller.
func Run(r *ev.Run, tier, self, harnessDir, scratch string) (states, transitions int64, err error) {
	// 1. generated overlay: every map range of teleport's own state-machine packages
	mo := filepath.Join(filepath.Dir(self), "maporder")
	if _, e := os.Stat(mo); e != nil {
		return 0, 0, fmt.Errorf("maporder tool not built (run setup.sh): %v", e)
	}
	ovDir := filepath.Join(scratch, "overlay")
	cmd := exec.Command(mo, ev.Repo(), ovDir, "./x/...", "./adapter/...", "./app", "./ibc", "./types", "./syscontracts/...")
	cmd.Dir = ev.Repo()
	if out, e := cmd.CombinedOutput(); e != nil {
		return 0, 0, fmt.Errorf("maporder: %v: %s", e, out)
	} else {
		r.Note(strings.TrimSpace(string(out)))
	}
	var sites struct {
		Rewritten     []map[string]string `json:"rewritten"`
		NotControlled []map[string]string `json:"not_controlled"`
		Clock         []map[string]string `json:"clock"`
	}
	bz, _ := os.ReadFile(filepath.Join(ovDir, "sites.json"))
	json.Unmarshal(bz, &sites)
	for _, s := range sites.Rewritten {
		r.Note("map range under explorer control: " + s["Pos"] + " " + s["Kind"])
	}
	for _, s := range sites.NotControlled {
		r.Note("map range NOT controlled (only Go's own randomisation across processes): " + s["Pos"])
	}
	for _, s := range sites.Clock {
		r.Note("wall-clock read under explorer control: " + s["Pos"] + " " + s["Kind"])
	}
	r.Count("wall_clock_reads_controlled", int64(len(sites.Clock)))
	r.Count("map_ranges_controlled", int64(len(sites.Rewritten)))
	r.Count("map_ranges_not_controlled", int64(len(sites.NotControlled)))
	inst := filepath.Join(scratch, "verifchk-inst")
	args := []string{"build"}
	if mf := os.Getenv("VERIF_MODFLAG"); mf != "" {
		args = append(args, mf)
	}
	b := exec.Command("go", append(args, "-tags", "verif", "-overlay", filepath.Join(ovDir, "overlay.json"), "-o", inst, "./cmd/verifchk")...)
	b.Dir = harnessDir
	if out, e := b.CombinedOutput(); e != nil {
		return 0, 0, fmt.Errorf("instrumented build: %v: %s", e, out)
	}
	// 2. the lattice
	procs := []string{"1", "4", "16"}
	tmps := []string{"default", "other", "missing"}
	orders := []string{"", "ascending", "descending", "rotated"}
	clocks := []string{"", "past", "future"}
	var envs []env
	if tier == "thorough" {
		for _, p := range procs {
			for _, t := range tmps {
				for _, o := range orders {
					for _, c := range clocks {
						if o == "" && c != "" {
							continue // the clock is controlled only in the instrumented binary
						}
						envs = append(envs, env{p, t, o, c})
					}
				}
			}
		}
	} else {
		// quick: every value of every dimension against the default of the others, plus the far corner
		envs = append(envs, env{"16", "default", "", ""})
		for _, p := range procs[:2] {
			envs = append(envs, env{p, "default", "", ""})
		}
		for _, t := range tmps[1:] {
			envs = append(envs, env{"16", t, "", ""})
		}
		for _, o := range orders[1:] {
			envs = append(envs, env{"16", "default", o, ""})
		}
		for _, c := range clocks[1:] {
			envs = append(envs, env{"16", "default", "ascending", c})
		}
		envs = append(envs, env{"1", "missing", "rotated", "past"})
	}
	ref := env{"16", "default", "", ""}
	type job struct {
		sc string
		e  env
	}
	var jobs []job
	for _, sc := range Scenarios {
		for _, e := range envs {
			jobs = append(jobs, job{sc, e})
		}
	}
	results := make([][]string, len(jobs))
	errs := make([]error, len(jobs))
	sem := make(chan struct{}, 8)
	var wg sync.WaitGroup
	for i, j := range jobs {
		wg.Add(1)
		go func(i int, j job) {
			defer wg.Done()
			sem <- struct{}{}
			defer func() { <-sem }()
			bin := self
			if j.e.MapOrder != "" || j.e.Clock != "" {
				bin = inst
			}
			results[i], errs[i] = runOne(bin, j.sc, j.e, scratch, filepath.Join(scratch, fmt.Sprintf("cwd-%d", i)))
		}(i, j)
	}
	wg.Wait()
	// 3. local files: every scenario runs once more in a fresh working directory (and HOME) as a node that is killed before
	// it cleans up — its unlink/rmdir calls are turned into no-ops (strace syscall injection) — so every file it ever
	// created is still there afterwards. Those files are then damaged (same names and sizes, first 8 bytes kept so that
	// format magics still match, every other byte inverted) and the scenario runs again in that directory: what a node
	// finds on its local disk must not feed back into what the state machine computes.
	straceOK := exec.Command("strace", "-f", "--seccomp-bpf", "-e", "trace=unlink", "-o", "/dev/null", "true").Run() == nil
	if !straceOK {
		r.Note("strace cannot attach in this environment: the local-files dimension only sees files the scenario does not remove itself")
	}
	type lres struct {
		note  []string
		left  []string
		got   []string
		err   error
		first error
	}
	lr := make([]lres, len(jobs))
	for i, j := range jobs {
		if j.e != ref || errs[i] != nil {
			continue
		}
		wg.Add(1)
		go func(i int, j job) {
			defer wg.Done()
			sem <- struct{}{}
			defer func() { <-sem }()
			dir := filepath.Join(scratch, fmt.Sprintf("cwd-%d", i))
			if straceOK {
				dir = filepath.Join(scratch, fmt.Sprintf("kept-%d", i))
				os.MkdirAll(filepath.Join(dir, "home"), 0o755)
				c := exec.Command("strace", "-f", "--seccomp-bpf", "-e", "trace=unlink,unlinkat,rmdir", "-e", "inject=unlink,unlinkat,rmdir:retval=0", "-o", "/dev/null", self, "c14run", j.sc)
				c.Dir = dir
				c.Env = append(os.Environ(), "HOME="+filepath.Join(dir, "home"))
				if out, err := c.CombinedOutput(); err != nil {
					lr[i].first = fmt.Errorf("%v: %s", err, lastBytes(out, 400))
				}
			}
			filepath.Walk(dir, func(p string, info os.FileInfo, err error) error {
				if err == nil && info.Mode().IsRegular() {
					lr[i].left = append(lr[i].left, p)
				}
				return nil
			})
			if len(lr[i].left) == 0 {
				return
			}
			for _, p := range lr[i].left {
				bz, err := os.ReadFile(p)
				if err != nil {
					continue
				}
				for k := 8; k < len(bz); k++ {
					bz[k] = ^bz[k]
				}
				os.WriteFile(p, bz, 0o644)
				rel, _ := filepath.Rel(dir, p)
				lr[i].note = append(lr[i].note, fmt.Sprintf("scenario %s created %s (%d bytes); kept and damaged for the re-run", j.sc, rel, len(bz)))
			}
			lr[i].got, lr[i].err = runOne(self, j.sc, ref, scratch, dir)
		}(i, j)
	}
	wg.Wait()
	var localRuns int64
	for i, j := range jobs {
		if j.e != ref || errs[i] != nil {
			continue
		}
		for _, n := range lr[i].note {
			r.Note(n)
		}
		ctx := map[string]interface{}{"engine": "c14", "scenario": j.sc, "env": "working directory and HOME hold the damaged files of an earlier run that was killed before its clean-up", "files": lr[i].left}
		switch {
		case lr[i].first != nil:
			// the node whose clean-up calls are no-ops must still run: report as a harness problem, not as a verdict
			return 0, 0, fmt.Errorf("scenario %s under strace: %v", j.sc, lr[i].first)
		case len(lr[i].left) == 0:
			r.Outcome("scenario " + j.sc + ": created no file in its working directory or HOME")
		case lr[i].err != nil:
			localRuns++
			r.Outcome("scenario " + j.sc + ": FAILS in local-files")
			r.Violation("C14:trace-depends-on-environment/"+j.sc+"/local-files", fmt.Sprintf("scenario %s fails when its working directory holds the damaged files of an earlier run: %v", j.sc, lr[i].err), ctx)
		case strings.Join(lr[i].got, "\n") != strings.Join(results[i], "\n"):
			localRuns++
			r.Outcome("scenario " + j.sc + ": trace DIFFERS in local-files")
			r.Violation("C14:trace-depends-on-environment/"+j.sc+"/local-files", fmt.Sprintf("scenario %s computes a different trace when its working directory holds the (damaged) files an earlier run created there: %v", j.sc, lr[i].left), ctx)
		default:
			localRuns++
			r.Outcome("scenario " + j.sc + ": identical trace in local-files")
		}
	}
	r.Count("local_file_reruns", localRuns)
	refs := map[string][]string{}
	for i, j := range jobs {
		if errs[i] != nil {
			return 0, 0, fmt.Errorf("scenario %s in %s: %v", j.sc, j.e, errs[i])
		}
		if j.e == ref {
			refs[j.sc] = results[i]
		}
	}
	// a scenario that compares two replays inside one process reports its verdict as a trace line
	for sc, t := range refs {
		for _, l := range t {
			if strings.HasPrefix(l, "teleport_process_history DIFFERS") {
				r.Violation("C14:result-depends-on-process-history/"+sc, l, map[string]interface{}{"engine": "c14", "scenario": sc, "env": ref.String(), "line": l})
			}
		}
	}
	distinct := map[string]bool{}
	for i, j := range jobs {
		want := refs[j.sc]
		got := results[i]
		states++
		transitions += int64(len(got))
		distinct[j.sc+strings.Join(got, "|")] = true
		if len(want) < 5 {
			return 0, 0, fmt.Errorf("scenario %s produced a trace of only %d lines", j.sc, len(want))
		}
		diffAt := -1
		for k := 0; k < len(want) || k < len(got); k++ {
			if k >= len(want) || k >= len(got) || want[k] != got[k] {
				diffAt = k
				break
			}
		}
		if diffAt < 0 {
			r.Outcome("scenario " + j.sc + ": identical trace in " + dimension(j.e, ref))
			continue
		}
		w, g := "(end)", "(end)"
		if diffAt < len(want) {
			w = want[diffAt]
		}
		if diffAt < len(got) {
			g = got[diffAt]
		}
		r.Outcome("scenario " + j.sc + ": trace DIFFERS in " + dimension(j.e, ref))
		r.Violation("C14:trace-depends-on-environment/"+j.sc+"/"+dimension(j.e, ref), fmt.Sprintf("scenario %s: %s differs from %s at trace line %d:\n  reference: %s\n  this env : %s", j.sc, j.e, ref, diffAt, w, g),
			map[string]interface{}{"engine": "c14", "scenario": j.sc, "env": j.e.String(), "reference_env": ref.String(), "line": diffAt, "reference": w, "got": g})
	}
	var scs []string
	for sc, t := range refs {
		scs = append(scs, fmt.Sprintf("%s: %d trace lines, e.g. %s", sc, len(t), t[len(t)-1]))
	}
	sort.Strings(scs)
	for _, s := range scs {
		r.Sample(s)
	}
	r.Count("processes_run", int64(len(jobs)))
	r.Count("environments", int64(len(envs)))
	return states, transitions, nil
}

func lastBytes(b []byte, n int) string {
	if len(b) > n {
		b = b[len(b)-n:]
	}
	return string(b)
}

// dimension names the coordinates in which e differs from the reference.
func dimension(e, ref env) string {
	var d []string
	if e.Procs != ref.Procs {
		d = append(d, "GOMAXPROCS")
	}
	if e.Tmp != ref.Tmp {
		d = append(d, "TMPDIR-"+e.Tmp)
	}
	if e.MapOrder != ref.MapOrder {
		d = append(d, "maporder-"+e.MapOrder)
	}
	if e.Clock != ref.Clock {
		d = append(d, "wallclock-"+e.Clock)
	}
	if len(d) == 0 {
		return "the reference environment"
	}
	return strings.Join(d, "+")
}
