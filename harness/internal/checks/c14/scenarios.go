// Package c14 decides C14 (deterministic state machine) by differential replay:
// every scenario (a history of blocks and transactions covering teleport's
// messages, hooks and proposal types) is executed in separate processes over a
// lattice of environments — GOMAXPROCS, TMPDIR, and the iteration order of
// every map range in teleport's own packages (made an explicit choice by a
// generated overlay) — and the per-transaction / per-block traces are compared.
package c14

import (
	upgradetypes "github.com/cosmos/cosmos-sdk/x/upgrade/types"
	"encoding/json"
	"fmt"
	"os"
	"time"
	"verif/internal/ev"

	sdk "github.com/cosmos/cosmos-sdk/types"

	"github.com/ethereum/go-ethereum/common"

	ethclient "github.com/teleport-network/teleport/x/xibc/clients/light-clients/eth/types"

	"verif/internal/bfs"
	"verif/internal/checks/agg"
	"verif/internal/checks/fx"
	"verif/internal/checks/c09"
	"verif/internal/checks/c17"
	"verif/internal/checks/c20"
	"verif/internal/checks/relay"
	"verif/internal/world"
)

// Scenarios lists the scenario names.
var Scenarios = []string{"relay", "aggregate", "rvesting", "adapters", "clients", "eth-pow", "bsc-search", "upgrade", "process-history", "restart"}

// RunScenario executes one scenario and returns its trace.
func RunScenario(name string) []string {
	var trace []string
	world.GlobalTrace = &trace
	switch name {
	case "relay":
		s := relay.New(relay.Config{Chains: 3, MaxSends: 20})
		for _, op := range []string{"send A B erc20 3", "send B A native 1", "send A C erc20 1", "send A B erc20+callok 1", "send A B erc20+callrevert 1", "send A B erc20+hookfail 1", "send A B erc20+agentbad 1",
			"send B A erc20+agentgood 3", "send A B feeonly1 1", "send A B unknown 1", "send A B direct 1",
			"upd A B", "upd B A", "upd C A", "upd A C", "upd A B", "upd B A", "upd C A",
			"recv A>B#1 g1", "recv A>B#1 g2", "recv B>A#1 dup2", "recv B>A#1 g1", "recv A>C#1 g1", "recv A>B#2 g1", "recv A>B#3 reenc", "recv A>B#4 g1", "recv A>B#5 g1", "recv B>A#2 g1", "recv A>B#6 alt",
			"upd A B", "upd B A", "upd A C", "upd A B", "upd B A",
			"ack A>B#1 g1", "ack A>B#1 g1", "ack A>B#2 conflict", "ack A>B#2 g1", "ack A>B#3 g2", "ack A>B#4 g1", "ack A>C#1 g1", "ack B>A#1 g1"} {
			s.Apply(op)
		}
	case "aggregate":
		s := agg.New(agg.Config{})
		for _, op := range []string{"gov regcoin acoin CoinA", "gov addcoin bcoin CoinB mod", "gov regerc20 ext", "gov regerc20 steal", "gov regerc20 delayed", "cc acoin u1 u1 3", "cc bcoin u2 u1 2", "ce mod bcoin u1 u2 1",
			"ce ext v:ext u1 u1 3", "cc v:ext u1 u2 1", "ce steal v:steal u1 u1 2", "ce delayed v:delayed u1 u1 2", "gov toggle acoin", "cc acoin u1 u1 1", "gov toggle acoin", "gov update ext ext2", "ce ext2 v:ext u1 u1 1",
			"gov enable false", "cc acoin u1 u1 1", "gov enable true", "destruct mod", "cc acoin u1 u1 1", "ce ext acoin u1 u1 1", "cc acoin u1 blocked 1"} {
			s.Apply(op)
		}
	case "rvesting":
		s := c20.New(c20.TierBounds("thorough"))
		for _, op := range []string{"init 5 2", "enable true", "block", `reward [{"denom":"aaa","amount":"3"},{"denom":"bbb","amount":"1"}]`, "block", "block", `reward [{"denom":"bbb","amount":"3"},{"denom":"aaa","amount":"1"}]`, "block", "enable false", "block"} {
			s.Apply(op)
		}
	case "adapters":
		s := c17.New(c17.Config{})
		// (votes first: the proposal's voting period is 40 s and every operation is a block of 5 s)
		for _, op := range []string{"eoa u2 vote 1 1", "eoa u2 wvote 1 1:60,3:40", "fwd u2 vote 1 2", "fwd3 u2 wvote 1 2:30,1:30,4:40 | delegate v1 1", "eoa u2 vote 7 1",
			"eoa u2 delegate v0 5", "eoa u2 delegate v1 3", "fwd u2 delegate v0 7", "eoa u2 redelegate v0 v1 1", "eoa u2 undelegate v1 2", "eoa u2 withdraw v0", "fake u2 delegate v0 5", "eoa u2 delegate vunknown 1",
			"fwd u2 delegate v0 5000", "advance"} {
			s.Apply(op)
		}
	case "clients":
		clients()
	case "eth-pow":
		ethPow()
	case "bsc-search":
		bscSearch(&trace)
	case "upgrade":
		upgrade()
	case "restart":
		// a node that is restarted in the middle of a history (the application is re-opened on a copy of its database: nothing
		// survives but the committed state) must execute the rest exactly as the node that kept running
		sys := relay.New(relay.Config{Chains: 2, MaxSends: 8})
		for _, op := range []string{"send A B erc20 3", "send B A native 1", "upd A B", "upd B A", "upd A B", "upd B A", "recv A>B#1 g1"} {
			sys.Apply(op)
		}
		restarted := sys.Clone().(*relay.Sys)
		rest := []string{"recv B>A#1 g1", "send A B erc20+callrevert 1", "upd A B", "upd B A", "upd A B", "upd B A", "ack A>B#1 g1", "recv A>B#2 g1", "ack B>A#1 g1", "send A B feeonly1 1"}
		var kept, fresh []string
		for _, c := range sys.World().Chains {
			c.Trace = &kept
		}
		for _, c := range restarted.World().Chains {
			c.Trace = &fresh
		}
		for _, op := range rest {
			sys.Apply(op)
		}
		for _, op := range rest {
			restarted.Apply(op)
		}
		trace = append(trace, kept...)
		verdict := fmt.Sprintf("teleport_process_history same after a restart (%d lines)", len(kept))
		for i := 0; i < len(kept) || i < len(fresh); i++ {
			if i >= len(kept) || i >= len(fresh) || kept[i] != fresh[i] {
				a, b := "(end)", "(end)"
				if i < len(kept) {
					a = kept[i]
				}
				if i < len(fresh) {
					b = fresh[i]
				}
				verdict = fmt.Sprintf("teleport_process_history DIFFERS at line %d: node that kept running {%s} restarted node {%s}", i, a, b)
				break
			}
		}
		trace = append(trace, verdict)
		world.GlobalTrace = &trace
	case "process-history":
		// the same histories twice in one process, each on fresh chains: the second replay must not see anything the first
		// left behind in process memory (package-level variables, caches) — a node that has been running and a node that
		// was just restarted must agree
		var first, second []string
		for _, t := range []*[]string{&first, &second} {
			world.GlobalTrace = t
			ethPow() // first the proof-of-work update, then the histories that exercise the rarer branches (a late header, forks, set switches)
			clients()
		}
		trace = append(trace, first...)
		verdict := fmt.Sprintf("teleport_process_history same (%d lines)", len(first))
		for i := 0; i < len(first) || i < len(second); i++ {
			if i >= len(first) || i >= len(second) || first[i] != second[i] {
				a, b := "(end)", "(end)"
				if i < len(first) {
					a = first[i]
				}
				if i < len(second) {
					b = second[i]
				}
				verdict = fmt.Sprintf("teleport_process_history DIFFERS at line %d: first replay {%s} second replay {%s}", i, a, b)
				break
			}
		}
		trace = append(trace, verdict)
		world.GlobalTrace = &trace
	default:
		panic("unknown scenario " + name)
	}
	world.GlobalTrace = nil
	return trace
}

func clients() { fx.Clients() }

// ethPow: a main-net ETH client (chain id 1): the update runs the real ethash verification.
func ethPow() {
	bz, err := os.ReadFile(ev.Repo() + "/x/xibc/clients/light-clients/eth/types/testdata/update_headers.json")
	if err != nil {
		panic(err)
	}
	var hs []*ethclient.EthHeader
	if err := json.Unmarshal(bz, &hs); err != nil {
		panic(err)
	}
	w := world.NewWorld()
	w.Now = time.Unix(int64(hs[1].Time)+20, 0)
	c := w.Add("teleport_9000-10", world.Options{Accounts: []string{"r1"}})
	w.Block(c)
	w.Do(c, func(ctx sdk.Context) {
		c.App.XIBCKeeper.ClientKeeper.RegisterRelayers(ctx, c.Accounts["r1"].Acc.String(), []string{"eth-main"}, []string{"a"})
	})
	g := hs[0].ToHeader()
	fx.Proposal(c, w, "eth-main", &ethclient.ClientState{Header: g, ChainId: 1, ContractAddress: common.HexToAddress("0x20000001").Bytes(), TrustingPeriod: 10_000_000_000, BlockDelay: 1},
		&ethclient.ConsensusState{Timestamp: g.Time, Height: g.Height, Root: g.Root})
	h1 := hs[1].ToHeader()
	fx.Update(c, w, "eth-main", &h1, "r1")
	bad := hs[2].ToHeader()
	bad.Nonce++
	fx.Update(c, w, "eth-main", &bad, "r1")
}

var _ = fmt.Sprint

// bscSearch runs a sequential explicit-state search of the real BSC client (the C09 system: every candidate next header
// at every reachable state, incl. the same validator sealing repeatedly so that it owns several recent-signer entries)
// and records the verdict of every transition, so that the whole reachable verdict table is compared across environments.
func bscSearch(trace *[]string) {
	for _, b := range []c09.Bounds{{N: 3, Epoch: 3, Depth: 6}, {N: 3, Epoch: 4, Depth: 7}, {N: 2, Epoch: 4, Depth: 9}, {N: 4, Epoch: 6, Depth: 6}, {N: 9, Epoch: 6, Depth: 5, U: 10, Big: true, GenesisShrink: 3}} {
		type node struct {
			sys  bfs.System
			hist string
		}
		root := c09.New(b)
		seen := map[string]bool{root.Key(): true}
		frontier := []node{{root, ""}}
		n := 0
		for d := 0; d < b.Depth && len(frontier) > 0; d++ {
			var next []node
			for _, nd := range frontier {
				for _, op := range nd.sys.Ops() {
					c := nd.sys.Clone()
					obs, class, viols := c.Apply(op)
					n++
					line := fmt.Sprintf("teleport_search N=%d E=%d [%s] %s -> %s | %s", b.N, b.Epoch, nd.hist, op, obs, class)
					for _, v := range viols {
						line += " VIOL " + v.Sig
					}
					*trace = append(*trace, line)
					k := c.Key()
					if !seen[k] {
						seen[k] = true
						next = append(next, node{c, nd.hist + op + ";"})
					}
				}
			}
			frontier = next
		}
		*trace = append(*trace, fmt.Sprintf("teleport_search N=%d E=%d states=%d transitions=%d", b.N, b.Epoch, len(seen), n))
	}
}

// upgrade: the registered software-upgrade handler ("v0.2": system contracts re-installed, xibc state reset, module
// migrations) runs in the BeginBlock of the planned height; traffic before and after it.
func upgrade() {
	s := relay.New(relay.Config{Chains: 2, MaxSends: 6})
	for _, op := range []string{"send A B erc20 3", "upd B A", "upd B A", "recv A>B#1 g1"} {
		s.Apply(op)
	}
	w := s.World()
	for _, n := range w.Order {
		c := w.Chains[n]
		w.Do(c, func(ctx sdk.Context) {
			// planned for the next block (a binary that holds the handler must not see the plan any earlier)
			if err := c.App.UpgradeKeeper.ScheduleUpgrade(ctx, upgradetypes.Plan{Name: "v0.2", Height: ctx.BlockHeight() + 1}); err != nil {
				panic(err)
			}
		})
		for i := 0; i < 4; i++ {
			w.Block(c)
		}
	}
}
