// Package c14 decides C14 (deterministic state machine) by differential replay:
// every scenario (a history of blocks and transactions covering teleport's
// messages, hooks and proposal types) is executed in separate processes over a
// lattice of environments — GOMAXPROCS, TMPDIR, and the iteration order of
// every map range in teleport's own packages (made an explicit choice by a
// generated overlay) — and the per-transaction / per-block traces are compared.
package c14

import (
	"encoding/json"
	"fmt"
	"os"
	"time"
	"verif/internal/ev"

	sdk "github.com/cosmos/cosmos-sdk/types"

	"github.com/ethereum/go-ethereum/common"
	ethtypes "github.com/ethereum/go-ethereum/core/types"

	bsctypes "github.com/teleport-network/teleport/x/xibc/clients/light-clients/bsc/types"
	ethclient "github.com/teleport-network/teleport/x/xibc/clients/light-clients/eth/types"
	tsstypes "github.com/teleport-network/teleport/x/xibc/clients/tss-client/types"
	xibcclient "github.com/teleport-network/teleport/x/xibc/core/client"
	clienttypes "github.com/teleport-network/teleport/x/xibc/core/client/types"
	"github.com/teleport-network/teleport/x/xibc/exported"

	"verif/internal/bfs"
	"verif/internal/checks/agg"
	"verif/internal/checks/c09"
	"verif/internal/checks/c10"
	"verif/internal/checks/c17"
	"verif/internal/checks/c20"
	"verif/internal/checks/relay"
	"verif/internal/world"
)

// Scenarios lists the scenario names.
var Scenarios = []string{"relay", "aggregate", "rvesting", "adapters", "clients", "eth-pow", "bsc-search"}

// RunScenario executes one scenario and returns its trace.
func RunScenario(name string) []string {
	var trace []string
	world.GlobalTrace = &trace
	switch name {
	case "relay":
		s := relay.New(relay.Config{Chains: 3, MaxSends: 20})
		for _, op := range []string{"send A B erc20 3", "send B A native 1", "send A C erc20 1", "send A B erc20+callok 1", "send A B erc20+callrevert 1", "send A B erc20+hookfail 1", "send A B erc20+agentbad 1",
			"send B A erc20+agentgood 3", "send A B feeonly1 1", "send A B unknown 1", "send A B direct 1",
			"upd A B", "upd B A", "upd C A", "upd A C", "upd A B", "upd B A", "upd C A",
			"recv A>B#1 g1", "recv A>B#1 g2", "recv B>A#1 dup2", "recv B>A#1 g1", "recv A>C#1 g1", "recv A>B#2 g1", "recv A>B#3 reenc", "recv A>B#4 g1", "recv A>B#5 g1", "recv B>A#2 g1", "recv A>B#6 alt",
			"upd A B", "upd B A", "upd A C", "upd A B", "upd B A",
			"ack A>B#1 g1", "ack A>B#1 g1", "ack A>B#2 conflict", "ack A>B#2 g1", "ack A>B#3 g2", "ack A>B#4 g1", "ack A>C#1 g1", "ack B>A#1 g1"} {
			s.Apply(op)
		}
	case "aggregate":
		s := agg.New(agg.Config{})
		for _, op := range []string{"gov regcoin acoin CoinA", "gov addcoin bcoin CoinB mod", "gov regerc20 ext", "gov regerc20 steal", "gov regerc20 delayed", "cc acoin u1 u1 3", "cc bcoin u2 u1 2", "ce mod bcoin u1 u2 1",
			"ce ext v:ext u1 u1 3", "cc v:ext u1 u2 1", "ce steal v:steal u1 u1 2", "ce delayed v:delayed u1 u1 2", "gov toggle acoin", "cc acoin u1 u1 1", "gov toggle acoin", "gov update ext ext2", "ce ext2 v:ext u1 u1 1",
			"gov enable false", "cc acoin u1 u1 1", "gov enable true", "destruct mod", "cc acoin u1 u1 1", "ce ext acoin u1 u1 1", "cc acoin u1 blocked 1"} {
			s.Apply(op)
		}
	case "rvesting":
		s := c20.New(c20.TierBounds("thorough"))
		for _, op := range []string{"init 5 2", "enable true", "block", `reward [{"denom":"aaa","amount":"3"},{"denom":"bbb","amount":"1"}]`, "block", "block", `reward [{"denom":"bbb","amount":"3"},{"denom":"aaa","amount":"1"}]`, "block", "enable false", "block"} {
			s.Apply(op)
		}
	case "adapters":
		s := c17.New(c17.Config{})
		for _, op := range []string{"eoa u2 delegate v0 5", "eoa u2 delegate v1 3", "fwd u2 delegate v0 7", "eoa u2 redelegate v0 v1 1", "eoa u2 undelegate v1 2", "eoa u2 withdraw v0", "fake u2 delegate v0 5", "eoa u2 delegate vunknown 1",
			"eoa u2 vote 1 1", "eoa u2 wvote 1 1:60,3:40", "fwd u2 vote 1 2", "eoa u2 vote 7 1", "fwd u2 delegate v0 5000", "advance"} {
			s.Apply(op)
		}
	case "clients":
		clients()
	case "eth-pow":
		ethPow()
	case "bsc-search":
		bscSearch(&trace)
	default:
		panic("unknown scenario " + name)
	}
	world.GlobalTrace = nil
	return trace
}

func proposal(c *world.Chain, w *world.World, name string, cs exported.ClientState, cons exported.ConsensusState) {
	w.Do(c, func(ctx sdk.Context) {
		p, err := clienttypes.NewCreateClientProposal("t", "d", name, cs, cons)
		if err != nil {
			panic(err)
		}
		cctx, write := ctx.CacheContext()
		if err := xibcclient.NewClientProposalHandler(c.App.XIBCKeeper.ClientKeeper)(cctx, p); err != nil {
			panic(err)
		}
		write()
	})
}

func update(c *world.Chain, w *world.World, name string, hdr exported.Header, signer string) {
	msg, err := clienttypes.NewMsgUpdateClient(name, hdr, c.Accounts[signer].Acc)
	if err != nil {
		panic(err)
	}
	w.Block(c, c.CosmosTx(c.Accounts[signer], msg))
}

// clients: BSC header chain across an epoch with a set switch (the snapshot's map ranges), an ETH fork on chain id 4, TSS updates.
func clients() {
	w := world.NewWorld()
	w.Now = time.Unix(1_700_000_500, 0)
	c := w.Add("teleport_9000-10", world.Options{Accounts: []string{"r1", "tss"}})
	w.Block(c)
	w.Do(c, func(ctx sdk.Context) {
		for _, n := range []string{"bsc-cp", "eth-cp", "tss-cp"} {
			c.App.XIBCKeeper.ClientKeeper.RegisterRelayers(ctx, c.Accounts["r1"].Acc.String(), []string{"bsc-cp", "eth-cp", "tss-cp"}, []string{"a", "b", "c"})
			c.App.XIBCKeeper.ClientKeeper.RegisterRelayers(ctx, c.Accounts["tss"].Acc.String(), []string{"tss-cp"}, []string{"t"})
			_ = n
		}
	})
	// BSC: 3 validators, epoch 4, genesis announces a 2-validator list; 10 blocks
	set := []int{0, 1, 2}
	gen := c09.Build(c09.Spec{Number: 16, Signer: 0, Coinbase: -1, Diff: 2, List: []int{0, 1}})
	var vals [][]byte
	for _, i := range set {
		h := c09.Build(c09.Spec{Number: 1, Signer: i, Coinbase: -1, Diff: 1})
		vals = append(vals, h.Coinbase)
	}
	proposal(c, w, "bsc-cp", bsctypes.NewClientState(*gen, c09.ChainID, 4, 3, vals, common.HexToAddress("0x20000001").Bytes(), 1_000_000_000), &bsctypes.ConsensusState{Timestamp: gen.Time, Height: gen.Height, Root: gen.Root})
	parent := gen
	for n := uint64(17); n <= 26; n++ {
		// try every key with both difficulties: exactly the eligible in-turn / out-of-turn ones are accepted, the rest rejected
		accepted := false
		for _, signer := range []int{0, 1, 2, 3} {
			for _, d := range []int64{2, 1} {
				var list []int
				if n%4 == 0 {
					list = []int{0, 1, 2}
				}
				h := c09.Build(c09.Spec{Parent: parent, Number: n, Signer: signer, Coinbase: -1, Diff: d, List: list})
				update(c, w, "bsc-cp", h, "r1")
				cs, _ := c.App.XIBCKeeper.ClientKeeper.GetClientState(c.ReadCtx(), "bsc-cp")
				if cs.GetLatestHeight().GetRevisionHeight() == n && !accepted {
					accepted = true
					parent = h
				}
				if accepted {
					break
				}
			}
			if accepted {
				break
			}
		}
	}
	// ETH (chain id 4): a fork and a branch switch, an orphan
	hdr := map[string]*ethtypes.Header{}
	g := c10.EthHeader(nil, "G", nil)
	g.Time = uint64(w.Now.Unix()) - 1000
	hdr["G"] = g
	gp := c10.ToProto(g)
	proposal(c, w, "eth-cp", &ethclient.ClientState{Header: *gp, ChainId: 4, ContractAddress: common.HexToAddress("0x20000001").Bytes(), TrustingPeriod: 10_000_000_000, BlockDelay: 1},
		&ethclient.ConsensusState{Timestamp: gp.Time, Height: gp.Height, Root: gp.Root})
	for _, n := range [][2]string{{"A1", "G"}, {"B1", "G"}, {"A2", "A1"}, {"B2", "B1"}, {"A3", "A2"}, {"X9", "A7"}} {
		p, ok := hdr[n[1]]
		if !ok {
			h := c10.EthHeader(hdr["G"], n[0], nil)
			h.ParentHash = common.HexToHash("0x1234")
			update(c, w, "eth-cp", c10.ToProto(h), "r1")
			continue
		}
		h := c10.EthHeader(p, n[0], nil)
		hdr[n[0]] = h
		update(c, w, "eth-cp", c10.ToProto(h), "r1")
	}
	// TSS
	proposal(c, w, "tss-cp", &tsstypes.ClientState{TssAddress: c.Accounts["tss"].Acc.String(), Pubkey: []byte{1}, PartPubkeys: [][]byte{{2}}, Threshold: 1}, &tsstypes.ConsensusState{})
	update(c, w, "tss-cp", &tsstypes.Header{TssAddress: c.Accounts["tss"].Acc.String(), Pubkey: []byte{3}, PartPubkeys: [][]byte{{4}}, Threshold: 2}, "tss")
	update(c, w, "tss-cp", &tsstypes.Header{TssAddress: c.Accounts["tss"].Acc.String(), Pubkey: []byte{3}, PartPubkeys: [][]byte{{4}}, Threshold: 2}, "r1")
}

// ethPow: a main-net ETH client (chain id 1): the update runs the real ethash verification.
func ethPow() {
	bz, err := os.ReadFile(ev.Repo() + "/x/xibc/clients/light-clients/eth/types/testdata/update_headers.json")
	if err != nil {
		panic(err)
	}
	var hs []*ethclient.EthHeader
	if err := json.Unmarshal(bz, &hs); err != nil {
		panic(err)
	}
	w := world.NewWorld()
	w.Now = time.Unix(int64(hs[1].Time)+20, 0)
	c := w.Add("teleport_9000-10", world.Options{Accounts: []string{"r1"}})
	w.Block(c)
	w.Do(c, func(ctx sdk.Context) {
		c.App.XIBCKeeper.ClientKeeper.RegisterRelayers(ctx, c.Accounts["r1"].Acc.String(), []string{"eth-main"}, []string{"a"})
	})
	g := hs[0].ToHeader()
	proposal(c, w, "eth-main", &ethclient.ClientState{Header: g, ChainId: 1, ContractAddress: common.HexToAddress("0x20000001").Bytes(), TrustingPeriod: 10_000_000_000, BlockDelay: 1},
		&ethclient.ConsensusState{Timestamp: g.Time, Height: g.Height, Root: g.Root})
	h1 := hs[1].ToHeader()
	update(c, w, "eth-main", &h1, "r1")
	bad := hs[2].ToHeader()
	bad.Nonce++
	update(c, w, "eth-main", &bad, "r1")
}

var _ = fmt.Sprint

// bscSearch runs a sequential explicit-state search of the real BSC client (the C09 system: every candidate next header
// at every reachable state, incl. the same validator sealing repeatedly so that it owns several recent-signer entries)
// and records the verdict of every transition, so that the whole reachable verdict table is compared across environments.
func bscSearch(trace *[]string) {
	for _, b := range []c09.Bounds{{N: 3, Epoch: 3, Depth: 6}, {N: 3, Epoch: 4, Depth: 7}, {N: 2, Epoch: 4, Depth: 9}, {N: 4, Epoch: 6, Depth: 6}, {N: 9, Epoch: 6, Depth: 5, U: 10, Big: true, GenesisShrink: 3}} {
		type node struct {
			sys  bfs.System
			hist string
		}
		root := c09.New(b)
		seen := map[string]bool{root.Key(): true}
		frontier := []node{{root, ""}}
		n := 0
		for d := 0; d < b.Depth && len(frontier) > 0; d++ {
			var next []node
			for _, nd := range frontier {
				for _, op := range nd.sys.Ops() {
					c := nd.sys.Clone()
					obs, class, viols := c.Apply(op)
					n++
					line := fmt.Sprintf("teleport_search N=%d E=%d [%s] %s -> %s | %s", b.N, b.Epoch, nd.hist, op, obs, class)
					for _, v := range viols {
						line += " VIOL " + v.Sig
					}
					*trace = append(*trace, line)
					k := c.Key()
					if !seen[k] {
						seen[k] = true
						next = append(next, node{c, nd.hist + op + ";"})
					}
				}
			}
			frontier = next
		}
		*trace = append(*trace, fmt.Sprintf("teleport_search N=%d E=%d states=%d transitions=%d", b.N, b.Epoch, len(seen), n))
	}
}
