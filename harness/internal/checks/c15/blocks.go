package c15

import (
	"encoding/json"
	"fmt"
	"strings"
	"time"

	"github.com/cosmos/cosmos-sdk/codec"
	sdk "github.com/cosmos/cosmos-sdk/types"
	authtypes "github.com/cosmos/cosmos-sdk/x/auth/types"
	"github.com/cosmos/cosmos-sdk/x/feegrant"
	govtypes "github.com/cosmos/cosmos-sdk/x/gov/types"
	paramproposal "github.com/cosmos/cosmos-sdk/x/params/types/proposal"

	"github.com/teleport-network/teleport/x/aggregate"
	aggregatetypes "github.com/teleport-network/teleport/x/aggregate/types"
	rvtypes "github.com/teleport-network/teleport/x/rvesting/types"
	"github.com/teleport-network/teleport/x/xibc"
	tsstypes "github.com/teleport-network/teleport/x/xibc/clients/tss-client/types"
	clienttypes "github.com/teleport-network/teleport/x/xibc/core/client/types"
	packettypes "github.com/teleport-network/teleport/x/xibc/core/packet/types"
	xibctypes "github.com/teleport-network/teleport/x/xibc/types"

	"verif/internal/ev"
	"verif/internal/world"
)

// paramsRun: every parameter change is submitted (dry run) and executed through the real gov router in a real
// block; then real blocks follow. Nothing outside the harness's own observation recovers a panic.
func paramsRun(r *ev.Run, changes []paramproposal.ParamChange, pools [][2]int64) (evals, nontrivial int64) {
	for _, mode := range []string{"genesis", "fee grant"} {
		for _, pool := range pools {
			init := sdk.NewCoins()
			if pool[0] > 0 {
				init = init.Add(sdk.NewInt64Coin("aaa", pool[0]))
			}
			if pool[1] > 0 {
				init = init.Add(sdk.NewInt64Coin("bbb", pool[1]))
			}
			funder := world.NewAccount("funder")
			base := world.NewChain("teleport_9000-10", world.StartTime, world.Options{
				Accounts:   []string{"funder"},
				ExtraCoins: map[string]sdk.Coins{"funder": sdk.NewCoins(sdk.NewInt64Coin("aaa", 9), sdk.NewInt64Coin("bbb", 9))},
				GenesisMod: func(cdc codec.Codec, gs map[string]json.RawMessage) {
					g := rvtypes.DefaultGenesisState()
					g.Params.EnableVesting = true
					g.Params.PerBlockReward = sdk.NewCoins(sdk.NewInt64Coin("aaa", 1))
					if !init.IsZero() {
						g.From = funder.Acc.String()
						g.InitReward = init
					}
					if mode == "fee grant" {
						g.Params.EnableVesting = false
					}
					gs[rvtypes.ModuleName] = cdc.MustMarshalJSON(g)
				},
			})
			now := world.StartTime
			if mode == "fee grant" {
				// an ordinary account sits at the module's address before any module account exists there: a fee grant naming
				// the address as grantee creates a plain account (bank transfers to module addresses are refused, fee grants
				// are not), vesting still switched off; the pool can then not be funded, so the empty pool is the only one
				if !init.IsZero() {
					continue
				}
				now = now.Add(world.BlockStep)
				grant, err := feegrant.NewMsgGrantAllowance(&feegrant.BasicAllowance{}, funder.Acc, authtypes.NewModuleAddress(rvtypes.ModuleName))
				if err != nil {
					panic(err)
				}
				res := base.Block(now, base.CosmosTx(base.Accounts["funder"], grant))
				acc := base.App.AccountKeeper.GetAccount(base.ReadCtx(), authtypes.NewModuleAddress(rvtypes.ModuleName))
				_, isModule := acc.(authtypes.ModuleAccountI)
				r.Outcome(fmt.Sprintf("fee grant naming the vesting module's address as grantee: accepted=%v, account there=%v, module account=%v", res[0].OK(), acc != nil, isModule))
			}
			for _, ch := range changes {
				c := base.Clone()
				t := now
				prop := paramproposal.NewParameterChangeProposal("t", "d", []paramproposal.ParamChange{ch})
				evals++
				if prop.ValidateBasic() != nil {
					r.Outcome("parameter change refused by stateless validation")
					continue
				}
				handler := c.App.GovKeeper.Router().GetRoute(prop.ProposalRoute())
				accepted := false
				var pan interface{}
				step := func(name string, f func()) bool {
					defer func() {
						if rec := recover(); rec != nil {
							pan = fmt.Sprintf("%s: %v", name, rec)
						}
					}()
					f()
					return true
				}
				step("block with the proposal", func() {
					t = t.Add(world.BlockStep)
					c.Begin(t)
					ctx := c.Ctx()
					// submission dry run (inside a transaction in reality: a panic here is recovered)
					func() {
						defer func() { recover() }()
						dry, _ := ctx.CacheContext()
						if handler(dry, prop) == nil {
							accepted = true
						}
					}()
					if accepted {
						cctx, write := ctx.CacheContext()
						if err := handler(cctx, prop); err == nil {
							write()
						}
					}
					c.End()
				})
				if !accepted {
					r.Outcome("parameter value refused by the parameter validators")
					continue
				}
				nontrivial++
				for i := 0; i < 3 && pan == nil; i++ {
					step(fmt.Sprintf("block %d after the change", i+1), func() {
						t = t.Add(world.BlockStep)
						c.Block(t)
					})
				}
				desc := fmt.Sprintf("%s/%s=%s with vesting pool aaa=%d bbb=%d (pool account created by %s)", ch.Subspace, ch.Key, ch.Value, pool[0], pool[1], mode)
				if pan != nil {
					kind := "other"
					if strings.Count(ch.Value, `"aaa"`) > 1 || strings.Count(ch.Value, `"bbb"`) > 1 {
						kind = "duplicate-reward-denomination"
					}
					r.Violation("C15:block-processing-panics-after-accepted-parameter-change/"+ch.Subspace+"."+ch.Key+"/"+kind, fmt.Sprintf("%s: %v", desc, pan), map[string]interface{}{"engine": "c15-params", "change": ch, "pool": pool, "pool_account_created_by": mode})
					r.Outcome("accepted parameter value: block processing PANICS")
				} else {
					r.Outcome("accepted parameter value: blocks processed")
				}
				if evals%37 == 1 {
					r.Sample(desc)
				}
			}
		}
	}
	return
}

// genesis: module genesis states that pass the module's own validation must initialise without panic.
func genesis(r *ev.Run) (evals, nontrivial int64) {
	c := world.NewChain("teleport_9000-10", world.StartTime, world.Options{Accounts: []string{"funder"}})
	coins := map[string]sdk.Coins{
		"default":         rvtypes.DefaultParams().PerBlockReward,
		"empty":           {},
		"nil":             nil,
		"zero amount":     {sdk.Coin{Denom: "aaa", Amount: sdk.ZeroInt()}},
		"duplicate denom": {sdk.NewInt64Coin("aaa", 1), sdk.NewInt64Coin("aaa", 2)},
		"unsorted":        {sdk.NewInt64Coin("bbb", 1), sdk.NewInt64Coin("aaa", 2)},
		"negative":        {sdk.Coin{Denom: "aaa", Amount: sdk.NewInt(-1)}},
		"empty denom":     {sdk.Coin{Denom: "", Amount: sdk.NewInt(1)}},
	}
	for name, reward := range coins {
		for _, enable := range []bool{false, true} {
			g := &rvtypes.GenesisState{Params: rvtypes.Params{EnableVesting: enable, PerBlockReward: reward}, InitReward: sdk.NewCoins()}
			evals++
			valid := false
			func() {
				defer func() { recover() }()
				valid = rvtypes.ValidateGenesis(g) == nil
			}()
			if !valid {
				r.Outcome("rvesting genesis refused by its validation")
				continue
			}
			nontrivial++
			var pan interface{}
			func() {
				defer func() { pan = recover() }()
				c.App.RVestingKeeper.InitGenesis(c.ReadCtx(), g)
			}()
			if pan != nil {
				r.Violation("C15:validated-genesis-panics-on-init/rvesting/"+strings.ReplaceAll(name, " ", "-"), fmt.Sprintf("rvesting genesis {enable=%v reward=%s (%s)} passes ValidateGenesis and panics in InitGenesis: %v", enable, reward, name, pan), map[string]interface{}{"engine": "c15-genesis", "reward": name, "enable": enable})
				r.Outcome("validated rvesting genesis PANICS on init")
			} else {
				r.Outcome("validated rvesting genesis initialises")
			}
		}
	}
	// aggregate
	for name, g := range map[string]aggregatetypes.GenesisState{
		"default":                     *aggregatetypes.DefaultGenesisState(),
		"pair with two denominations": {Params: aggregatetypes.DefaultParams(), TokenPairs: []aggregatetypes.TokenPair{{ERC20Address: "0x00000000000000000000000000000000000000aa", Denoms: []string{"acoin", "bcoin"}, Enabled: true, ContractOwner: aggregatetypes.OWNER_MODULE}}},
		"same second denomination in two pairs": {Params: aggregatetypes.DefaultParams(), TokenPairs: []aggregatetypes.TokenPair{
			{ERC20Address: "0x00000000000000000000000000000000000000aa", Denoms: []string{"acoin", "bcoin"}, Enabled: true, ContractOwner: aggregatetypes.OWNER_MODULE},
			{ERC20Address: "0x00000000000000000000000000000000000000ab", Denoms: []string{"ccoin", "bcoin"}, Enabled: true, ContractOwner: aggregatetypes.OWNER_MODULE}}},
		"owner unspecified": {Params: aggregatetypes.DefaultParams(), TokenPairs: []aggregatetypes.TokenPair{{ERC20Address: "0x00000000000000000000000000000000000000aa", Denoms: []string{"acoin"}, Enabled: false}}},
	} {
		evals++
		valid := false
		func() {
			defer func() { recover() }()
			valid = g.Validate() == nil
		}()
		if !valid {
			r.Outcome("aggregate genesis refused by its validation")
			continue
		}
		nontrivial++
		var pan interface{}
		func() {
			defer func() { pan = recover() }()
			aggregate.InitGenesis(c.ReadCtx(), *c.App.AggregateKeeper, c.App.AccountKeeper, g)
		}()
		if pan != nil {
			r.Violation("C15:validated-genesis-panics-on-init/aggregate/"+strings.ReplaceAll(name, " ", "-"), fmt.Sprint(pan), nil)
		} else {
			r.Outcome("validated aggregate genesis initialises")
		}
	}
	// xibc: client-module genesis states (relayer registry shapes, native chain names) and packet-module states
	{
		good := world.NewAccount("gen-relayer").Acc.String()
		type rel = clienttypes.IdentifiedRelayer
		relayers := []struct {
			name string
			rs   []rel
		}{
			{"none", nil},
			{"one well formed", []rel{{Address: good, Chains: []string{"bsc"}, Addresses: []string{"0xabc"}}}},
			{"empty relayer address", []rel{{Address: "", Chains: []string{"bsc"}, Addresses: []string{"0xabc"}}}},
			{"relayer address not bech32", []rel{{Address: "nobody", Chains: []string{"bsc"}, Addresses: []string{"0xabc"}}}},
			{"more chains than addresses", []rel{{Address: good, Chains: []string{"bsc", "eth"}, Addresses: []string{"0xabc"}}}},
			{"more addresses than chains", []rel{{Address: good, Chains: []string{"bsc"}, Addresses: []string{"0xabc", "0xdef"}}}},
			{"no chains", []rel{{Address: good}}},
			{"empty chain name", []rel{{Address: good, Chains: []string{""}, Addresses: []string{"0xabc"}}}},
			{"empty counterparty address", []rel{{Address: good, Chains: []string{"bsc"}, Addresses: []string{""}}}},
			{"same relayer twice", []rel{{Address: good, Chains: []string{"bsc"}, Addresses: []string{"0xabc"}}, {Address: good, Chains: []string{"eth"}, Addresses: []string{"0xdef"}}}},
		}
		for _, rc := range relayers {
			for _, native := range []string{"teleport", "", "x", "a/b", " teleport"} {
				cg := clienttypes.DefaultGenesisState()
				cg.Relayers = rc.rs
				cg.NativeChainName = native
				g := &xibctypes.GenesisState{ClientGenesis: cg, PacketGenesis: packettypes.DefaultGenesisState()}
				evals++
				valid := false
				func() {
					defer func() { recover() }()
					valid = g.Validate() == nil
				}()
				if !valid {
					r.Outcome("xibc genesis refused by its validation")
					continue
				}
				nontrivial++
				fresh := world.NewChain("teleport_9000-10", world.StartTime, world.Options{Accounts: []string{"funder"}})
				var pan interface{}
				func() {
					defer func() { pan = recover() }()
					ctx, _ := fresh.ReadCtx().CacheContext()
					xibc.InitGenesis(ctx, *fresh.App.XIBCKeeper, false, g)
				}()
				if pan != nil {
					r.Violation("C15:validated-genesis-panics-on-init/xibc/"+strings.ReplaceAll(rc.name, " ", "-"), fmt.Sprintf("xibc genesis {relayers: %s, native chain name %q} passes Validate and panics in InitGenesis: %v", rc.name, native, pan), map[string]interface{}{"engine": "c15-genesis", "relayers": rc.name, "native_chain_name": native})
					r.Outcome("validated xibc genesis PANICS on init")
				} else {
					r.Outcome("validated xibc genesis initialises")
				}
			}
		}
	}
	return
}

// govOutcomes: proposals that do NOT pass — a deposit period that expires below the minimum deposit, a voting period that
// ends without a vote (no quorum) — are submitted by real transactions and the chain is run through the end blockers that
// refund or burn their deposits: block processing must not panic.
func govOutcomes(r *ev.Run) (evals, nontrivial int64) {
	tss := world.NewAccount("gov-outcome-tss").Acc.String()
	contents := []struct {
		name string
		make func() govtypes.Content
	}{
		{"text", func() govtypes.Content { return govtypes.NewTextProposal("t", "d") }},
		{"create TSS client", func() govtypes.Content {
			p, err := clienttypes.NewCreateClientProposal("t", "d", "tss-chain", &tsstypes.ClientState{TssAddress: tss, Pubkey: []byte{1}, PartPubkeys: [][]byte{{2}}, Threshold: 1}, &tsstypes.ConsensusState{})
			if err != nil {
				panic(err)
			}
			return p
		}},
		{"parameter change", func() govtypes.Content {
			return paramproposal.NewParameterChangeProposal("t", "d", []paramproposal.ParamChange{{Subspace: aggregatetypes.ModuleName, Key: "EnableEVMHook", Value: "false"}})
		}},
	}
	for _, ct := range contents {
		for _, deposit := range []int64{1, 100} { // below the minimum deposit of 100 / the full deposit
			c := world.NewChain("teleport_9000-10", world.StartTime, world.Options{Accounts: []string{"u1"}, GenesisMod: func(cdc codec.Codec, gs map[string]json.RawMessage) {
				var g govtypes.GenesisState
				cdc.MustUnmarshalJSON(gs[govtypes.ModuleName], &g)
				g.DepositParams.MinDeposit = sdk.NewCoins(sdk.NewInt64Coin("stake", 100))
				g.DepositParams.MaxDepositPeriod = 20 * time.Second
				g.VotingParams.VotingPeriod = 20 * time.Second
				gs[govtypes.ModuleName] = cdc.MustMarshalJSON(&g)
			}})
			evals++
			msg, err := govtypes.NewMsgSubmitProposal(ct.make(), sdk.NewCoins(sdk.NewInt64Coin("stake", deposit)), c.Accounts["u1"].Acc)
			if err != nil {
				panic(err)
			}
			t := world.StartTime.Add(world.BlockStep)
			res := c.Block(t, c.CosmosTx(c.Accounts["u1"], msg))
			if !res[0].OK() {
				r.Outcome("proposal refused at submission")
				continue
			}
			nontrivial++
			var pan interface{}
			func() {
				defer func() { pan = recover() }()
				for i := 0; i < 12 && pan == nil; i++ { // 60 s: past the deposit period, the voting period and the tally
					t = t.Add(world.BlockStep)
					c.Block(t)
				}
			}()
			what := map[int64]string{1: "the deposit period expires below the minimum deposit", 100: "the voting period ends without a vote"}[deposit]
			if pan != nil {
				r.Violation("C15:block-processing-panics-when-a-proposal-fails/"+strings.ReplaceAll(ct.name, " ", "-"), fmt.Sprintf("%s proposal, %s: %v", ct.name, what, pan), map[string]interface{}{"engine": "c15-gov-outcomes", "content": ct.name, "deposit": deposit})
				r.Outcome("failed proposal: block processing PANICS")
			} else {
				r.Outcome("failed proposal (" + what + "): blocks processed")
			}
		}
	}
	return
}
