// Package c15 decides C15: no panic outside per-transaction recovery.
// Enumerates proposal contents (around well-formed defaults, with degenerate
// field alphabets), filters them exactly as submission does (ValidateBasic and
// the gov keeper's dry run of the handler, both under recovery), and executes
// the survivors the way gov.EndBlocker does (cache context, no recovery) in
// every other module state; enumerates parameter values accepted by the
// parameter validators followed by real blocks; and initialises genesis states
// that pass the modules' own validation.
package c15

import (
	"github.com/ethereum/go-ethereum/crypto"
	"sort"
	banktypes "github.com/cosmos/cosmos-sdk/x/bank/types"
	"bytes"
	"fmt"
	"math/big"
	"strings"
	"time"

	tmtypes "github.com/tendermint/tendermint/types"

	codectypes "github.com/cosmos/cosmos-sdk/codec/types"
	sdk "github.com/cosmos/cosmos-sdk/types"
	govtypes "github.com/cosmos/cosmos-sdk/x/gov/types"
	paramproposal "github.com/cosmos/cosmos-sdk/x/params/types/proposal"

	"github.com/ethereum/go-ethereum/common"

	aggregatetypes "github.com/teleport-network/teleport/x/aggregate/types"
	rvtypes "github.com/teleport-network/teleport/x/rvesting/types"
	bsctypes "github.com/teleport-network/teleport/x/xibc/clients/light-clients/bsc/types"
	ethclient "github.com/teleport-network/teleport/x/xibc/clients/light-clients/eth/types"
	xibctmtypes "github.com/teleport-network/teleport/x/xibc/clients/light-clients/tendermint/types"
	tsstypes "github.com/teleport-network/teleport/x/xibc/clients/tss-client/types"
	clienttypes "github.com/teleport-network/teleport/x/xibc/core/client/types"
	commitmenttypes "github.com/teleport-network/teleport/x/xibc/core/commitment/types"
	"github.com/teleport-network/teleport/x/xibc/exported"

	"verif/internal/checks/c07"
	"verif/internal/checks/c09"
	"verif/internal/checks/c13"
	"verif/internal/ev"
	"verif/internal/world"
)

const clientName = "cp-chain"

// variant of a (client state, consensus state) pair.
type csVariant struct {
	desc string
	cs   exported.ClientState
	cons exported.ConsensusState
	devs int // number of deviations from the well-formed default
}

func tmVariants(max int) []csVariant {
	vals := c07.MakeSet([]int{0}, []int64{1})
	def := func() *xibctmtypes.ClientState {
		return xibctmtypes.NewClientState("cp-1", xibctmtypes.DefaultTrustLevel, time.Hour, 2*time.Hour, 10*time.Second, clienttypes.NewHeight(1, 5),
			commitmenttypes.GetSDKSpecs(), commitmenttypes.MerklePrefix{KeyPrefix: []byte("xibc")}, 0)
	}
	cons := &xibctmtypes.ConsensusState{Timestamp: time.Unix(1_700_000_000, 0), Root: []byte("root"), NextValidatorsHash: vals.Hash()}
	muts := []struct {
		n string
		f func(c *xibctmtypes.ClientState)
	}{
		{"chain id empty", func(c *xibctmtypes.ClientState) { c.ChainId = "" }},
		{"chain id without revision", func(c *xibctmtypes.ClientState) { c.ChainId = "plain" }},
		{"trust level 0/0", func(c *xibctmtypes.ClientState) { c.TrustLevel = xibctmtypes.Fraction{} }},
		{"trust level 1/1", func(c *xibctmtypes.ClientState) { c.TrustLevel = xibctmtypes.Fraction{Numerator: 1, Denominator: 1} }},
		{"trusting period 0", func(c *xibctmtypes.ClientState) { c.TrustingPeriod = 0 }},
		{"trusting period 1ns", func(c *xibctmtypes.ClientState) { c.TrustingPeriod = 1 }},
		{"unbonding period 0", func(c *xibctmtypes.ClientState) { c.UnbondingPeriod = 0 }},
		{"clock drift 0", func(c *xibctmtypes.ClientState) { c.MaxClockDrift = 0 }},
		{"latest height 0", func(c *xibctmtypes.ClientState) { c.LatestHeight = clienttypes.Height{} }},
		{"latest height max", func(c *xibctmtypes.ClientState) { c.LatestHeight = clienttypes.NewHeight(1<<64-1, 1<<64-1) }},
		{"proof specs nil", func(c *xibctmtypes.ClientState) { c.ProofSpecs = nil }},
		{"merkle prefix empty", func(c *xibctmtypes.ClientState) { c.MerklePrefix = commitmenttypes.MerklePrefix{} }},
		{"time delay max", func(c *xibctmtypes.ClientState) { c.TimeDelay = 1<<64 - 1 }},
	}
	consVars := []struct {
		n string
		c exported.ConsensusState
	}{
		{"", cons},
		{"consensus zero timestamp nil root", &xibctmtypes.ConsensusState{}},
		{"consensus of BSC type", &bsctypes.ConsensusState{Timestamp: 1, Height: clienttypes.NewHeight(0, 5), Root: []byte("r")}},
		{"consensus of TSS type", &tsstypes.ConsensusState{}},
		{"consensus nil", nil},
	}
	return expand("tendermint", func() exported.ClientState { return def() }, len(muts), func(cs exported.ClientState, i int) string {
		muts[i].f(cs.(*xibctmtypes.ClientState))
		return muts[i].n
	}, consVars2(consVars), max)
}

type consVar struct {
	n string
	c exported.ConsensusState
}

func consVars2(in []struct {
	n string
	c exported.ConsensusState
}) []consVar {
	var out []consVar
	for _, x := range in {
		out = append(out, consVar{x.n, x.c})
	}
	return out
}

// expand builds all variants with at most max deviations (a non-default consensus state counts as one).
func expand(typ string, fresh func() exported.ClientState, n int, apply func(cs exported.ClientState, i int) string, cons []consVar, max int) []csVariant {
	var out []csVariant
	for ci, cv := range cons {
		cdev := 0
		if ci > 0 {
			cdev = 1
		}
		add := func(cs exported.ClientState, descs []string) {
			d := append([]string{}, descs...)
			if cv.n != "" {
				d = append(d, cv.n)
			}
			desc := typ + ": well-formed"
			if len(d) > 0 {
				desc = typ + ": " + strings.Join(d, " + ")
			}
			out = append(out, csVariant{desc, cs, cv.c, len(d)})
		}
		add(fresh(), nil)
		if cdev+1 <= max {
			for i := 0; i < n; i++ {
				cs := fresh()
				d1 := apply(cs, i)
				add(cs, []string{d1})
				if cdev+2 <= max {
					for j := i + 1; j < n; j++ {
						cs2 := fresh()
						a := apply(cs2, i)
						b := apply(cs2, j)
						add(cs2, []string{a, b})
					}
				}
			}
		}
	}
	return out
}

func bscVariants(max int) []csVariant {
	def := func() *bsctypes.ClientState {
		gen := c09.Build(c09.Spec{Number: 400, Signer: 0, Coinbase: -1, Diff: 2, List: []int{0}})
		return bsctypes.NewClientState(*gen, c09.ChainID, 200, 3, [][]byte{gen.Coinbase}, common.HexToAddress("0x20000001").Bytes(), 1_000_000_000)
	}
	d := def()
	cons := &bsctypes.ConsensusState{Timestamp: d.Header.Time, Height: d.Header.Height, Root: d.Header.Root}
	muts := []struct {
		n string
		f func(c *bsctypes.ClientState)
	}{
		{"epoch 0", func(c *bsctypes.ClientState) { c.Epoch = 0 }},
		{"epoch 1", func(c *bsctypes.ClientState) { c.Epoch = 1 }},
		{"height 0", func(c *bsctypes.ClientState) { c.Header.Height = clienttypes.Height{} }},
		{"height not on epoch", func(c *bsctypes.ClientState) { c.Header.Height.RevisionHeight = 401 }},
		{"extra without validators", func(c *bsctypes.ClientState) { c.Header.Extra = make([]byte, 97) }},
		// validly sealed by its own coinbase, but the extra data is shorter than vanity + seal (65, 81 and 96 bytes)
		{"sealed header with 65 bytes of extra data", func(c *bsctypes.ClientState) { c.Header = *c09.Build(c09.Spec{Number: 400, Signer: 0, Coinbase: -1, Diff: 2, Vanity: -32}) }},
		{"sealed header with 81 bytes of extra data", func(c *bsctypes.ClientState) { c.Header = *c09.Build(c09.Spec{Number: 400, Signer: 0, Coinbase: -1, Diff: 2, Vanity: -16}) }},
		{"sealed header with 96 bytes of extra data", func(c *bsctypes.ClientState) { c.Header = *c09.Build(c09.Spec{Number: 400, Signer: 0, Coinbase: -1, Diff: 2, Vanity: -1}) }},
		{"extra validators length not multiple of 20", func(c *bsctypes.ClientState) { c.Header.Extra = make([]byte, 97+19) }},
		{"bloom 257 bytes", func(c *bsctypes.ClientState) { c.Header.Bloom = make([]byte, 257) }},
		{"bloom empty", func(c *bsctypes.ClientState) { c.Header.Bloom = nil }},
		{"nonce 9 bytes", func(c *bsctypes.ClientState) { c.Header.Nonce = make([]byte, 9) }},
		{"difficulty nil", func(c *bsctypes.ClientState) { c.Header.Difficulty = nil }},
		{"mix digest 33 bytes", func(c *bsctypes.ClientState) { c.Header.MixDigest = make([]byte, 33) }},
		{"coinbase 21 bytes", func(c *bsctypes.ClientState) { c.Header.Coinbase = make([]byte, 21) }},
		{"parent hash 33 bytes", func(c *bsctypes.ClientState) { c.Header.ParentHash = make([]byte, 33) }},
		{"validators nil", func(c *bsctypes.ClientState) { c.Validators = nil }},
		{"validator of 3 bytes", func(c *bsctypes.ClientState) { c.Validators = [][]byte{{1, 2, 3}} }},
		{"contract address nil", func(c *bsctypes.ClientState) { c.ContractAddress = nil }},
		{"chain id 0", func(c *bsctypes.ClientState) { c.ChainId = 0 }},
		{"trusting period 0", func(c *bsctypes.ClientState) { c.TrustingPeriod = 0 }},
		{"signature garbage", func(c *bsctypes.ClientState) {
			copy(c.Header.Extra[len(c.Header.Extra)-65:], bytes.Repeat([]byte{0xff}, 65))
		}},
		{"gas limit max", func(c *bsctypes.ClientState) { c.Header.GasLimit = 1<<64 - 1 }},
	}
	consVars := []consVar{{"", cons}, {"consensus of tendermint type", &xibctmtypes.ConsensusState{Timestamp: time.Unix(1, 0), Root: []byte("r"), NextValidatorsHash: make([]byte, 32)}},
		{"consensus nil", nil}, {"consensus with other height", &bsctypes.ConsensusState{Timestamp: 1, Height: clienttypes.NewHeight(7, 7), Root: nil}}}
	return expand("bsc", func() exported.ClientState { return def() }, len(muts), func(cs exported.ClientState, i int) string {
		muts[i].f(cs.(*bsctypes.ClientState))
		return muts[i].n
	}, consVars, max)
}

func ethVariants(max int) []csVariant {
	def := func() *ethclient.ClientState {
		hd := ethclient.Header{ParentHash: make([]byte, 32), UncleHash: make([]byte, 32), Coinbase: make([]byte, 20), Root: bytes.Repeat([]byte{7}, 32), TxHash: make([]byte, 32), ReceiptHash: make([]byte, 32),
			Bloom: make([]byte, 256), Difficulty: big.NewInt(2).Bytes(), Height: clienttypes.NewHeight(0, 100), GasLimit: 30_000_000, GasUsed: 1, Time: 1_700_000_000, MixDigest: make([]byte, 32), BaseFee: big.NewInt(7).Bytes()}
		return &ethclient.ClientState{Header: hd, ChainId: 4, ContractAddress: common.HexToAddress("0x20000001").Bytes(), TrustingPeriod: 1_000_000_000, BlockDelay: 1}
	}
	d := def()
	cons := &ethclient.ConsensusState{Timestamp: d.Header.Time, Height: d.Header.Height, Root: d.Header.Root}
	muts := []struct {
		n string
		f func(c *ethclient.ClientState)
	}{
		{"height 0", func(c *ethclient.ClientState) { c.Header.Height = clienttypes.Height{} }},
		{"bloom 257 bytes", func(c *ethclient.ClientState) { c.Header.Bloom = make([]byte, 257) }},
		{"bloom empty", func(c *ethclient.ClientState) { c.Header.Bloom = nil }},
		{"difficulty nil", func(c *ethclient.ClientState) { c.Header.Difficulty = nil }},
		{"base fee nil", func(c *ethclient.ClientState) { c.Header.BaseFee = nil }},
		{"gas limit 0", func(c *ethclient.ClientState) { c.Header.GasLimit = 0; c.Header.GasUsed = 0 }},
		{"gas limit 2^63", func(c *ethclient.ClientState) { c.Header.GasLimit = 1 << 63 }},
		{"gas used above limit", func(c *ethclient.ClientState) { c.Header.GasUsed = c.Header.GasLimit + 1 }},
		{"extra 33 bytes", func(c *ethclient.ClientState) { c.Header.Extra = make([]byte, 33) }},
		{"mix digest 33 bytes", func(c *ethclient.ClientState) { c.Header.MixDigest = make([]byte, 33) }},
		{"root 33 bytes", func(c *ethclient.ClientState) { c.Header.Root = make([]byte, 33) }},
		{"root empty", func(c *ethclient.ClientState) { c.Header.Root = nil }},
		{"coinbase 21 bytes", func(c *ethclient.ClientState) { c.Header.Coinbase = make([]byte, 21) }},
		{"chain id 1 (proof of work)", func(c *ethclient.ClientState) { c.ChainId = 1 }},
		{"contract address nil", func(c *ethclient.ClientState) { c.ContractAddress = nil }},
		{"trusting period 0", func(c *ethclient.ClientState) { c.TrustingPeriod = 0 }},
		{"block delay max", func(c *ethclient.ClientState) { c.BlockDelay = 1<<64 - 1 }},
	}
	consVars := []consVar{{"", cons}, {"consensus of tss type", &tsstypes.ConsensusState{}}, {"consensus nil", nil},
		{"consensus with nil root", &ethclient.ConsensusState{Timestamp: 0, Height: clienttypes.Height{}, Root: nil}}}
	return expand("eth", func() exported.ClientState { return def() }, len(muts), func(cs exported.ClientState, i int) string {
		muts[i].f(cs.(*ethclient.ClientState))
		return muts[i].n
	}, consVars, max)
}

func tssVariants(max int) []csVariant {
	acc := world.NewAccount("tss").Acc.String()
	def := func() *tsstypes.ClientState {
		return &tsstypes.ClientState{TssAddress: acc, Pubkey: []byte{1}, PartPubkeys: [][]byte{{2}}, Threshold: 1}
	}
	muts := []struct {
		n string
		f func(c *tsstypes.ClientState)
	}{
		{"tss address empty", func(c *tsstypes.ClientState) { c.TssAddress = "" }},
		{"tss address not bech32", func(c *tsstypes.ClientState) { c.TssAddress = "0x1234" }},
		{"pubkey nil", func(c *tsstypes.ClientState) { c.Pubkey = nil }},
		{"part pubkeys nil", func(c *tsstypes.ClientState) { c.PartPubkeys = nil }},
		{"threshold 0", func(c *tsstypes.ClientState) { c.Threshold = 0 }},
		{"threshold max", func(c *tsstypes.ClientState) { c.Threshold = 1<<64 - 1 }},
	}
	consVars := []consVar{{"", &tsstypes.ConsensusState{}}, {"consensus nil", nil}, {"consensus of eth type", &ethclient.ConsensusState{Timestamp: 1, Height: clienttypes.NewHeight(0, 1), Root: []byte{1}}}}
	return expand("tss", func() exported.ClientState { return def() }, len(muts), func(cs exported.ClientState, i int) string {
		muts[i].f(cs.(*tsstypes.ClientState))
		return muts[i].n
	}, consVars, max)
}

// content with description.
type content struct {
	desc string
	c    govtypes.Content
	devs int
}

func packAny(v interface{}) (out *codectypes.Any) {
	if v == nil {
		return nil
	}
	defer func() {
		if r := recover(); r != nil {
			out = nil // not encodable: such a content cannot be put into a transaction
		}
	}()
	switch x := v.(type) {
	case exported.ClientState:
		a, err := clienttypes.PackClientState(x)
		if err != nil {
			return nil
		}
		return a
	case exported.ConsensusState:
		a, err := clienttypes.PackConsensusState(x)
		if err != nil {
			return nil
		}
		return a
	}
	return nil
}

func clientContents(max int) []content {
	var out []content
	var vars []csVariant
	vars = append(vars, tmVariants(max)...)
	vars = append(vars, bscVariants(max)...)
	vars = append(vars, ethVariants(max)...)
	vars = append(vars, tssVariants(max)...)
	names := []struct{ n, d string }{{clientName, ""}, {"other-chain", " (unused chain name)"}, {"x", " (name too short)"}, {"bad/name", " (name with separator)"}}
	for _, v := range vars {
		var consAny *codectypes.Any
		if v.cons != nil {
			consAny = packAny(v.cons)
		}
		csAny := packAny(v.cs)
		for ni, nm := range names {
			if ni > 0 && v.devs > 0 {
				continue // name deviations only combined with well-formed contents
			}
			out = append(out,
				content{"CreateClient " + v.desc + nm.d, &clienttypes.CreateClientProposal{Title: "t", Description: "d", ChainName: nm.n, ClientState: csAny, ConsensusState: consAny}, v.devs},
				content{"UpgradeClient " + v.desc + nm.d, &clienttypes.UpgradeClientProposal{Title: "t", Description: "d", ChainName: nm.n, ClientState: csAny, ConsensusState: consAny}, v.devs},
				content{"ToggleClient " + v.desc + nm.d, &clienttypes.ToggleClientProposal{Title: "t", Description: "d", ChainName: nm.n, ClientState: csAny, ConsensusState: consAny}, v.devs},
			)
		}
	}
	// client state Any missing altogether
	out = append(out, content{"CreateClient without client state", &clienttypes.CreateClientProposal{Title: "t", Description: "d", ChainName: clientName}, 1})
	// relayer registrations
	acc := world.NewAccount("r1").Acc.String()
	for _, rr := range []struct {
		d              string
		addr           string
		chains, addrs  []string
	}{
		{"well-formed", acc, []string{"chain-a"}, []string{"0xabc"}},
		{"no chains", acc, nil, nil},
		{"more chains than addresses", acc, []string{"chain-a", "chain-b"}, []string{"0xabc"}},
		{"more addresses than chains", acc, []string{"chain-a"}, []string{"0xabc", "0xdef"}},
		{"empty address strings", acc, []string{"chain-a"}, []string{""}},
		{"relayer address not bech32", "0x12", []string{"chain-a"}, []string{"x"}},
		{"duplicate chains", acc, []string{"chain-a", "chain-a"}, []string{"x", "y"}},
	} {
		out = append(out, content{"RegisterRelayer " + rr.d, clienttypes.NewRegisterRelayerProposal("t", "d", rr.addr, rr.chains, rr.addrs), 1})
	}
	return out
}

// module states: a client of the given type (or none) under clientName; clients with a short trusting period so that
// their oldest consensus state expires between submission and execution.
func clientStates(h *c07.Host) map[string]sdk.Context {
	out := map[string]sdk.Context{}
	now := time.Unix(1_700_000_100, 0)
	out["no client"] = h.Ctx(now)
	k := h.C.App.XIBCKeeper.ClientKeeper
	for _, v := range []csVariant{tmVariants(0)[0], bscVariants(0)[0], ethVariants(0)[0], tssVariants(0)[0]} {
		ctx := h.Ctx(now)
		if err := k.CreateClient(ctx, clientName, v.cs, v.cons); err != nil {
			panic(err)
		}
		out["a "+strings.SplitN(v.desc, ":", 2)[0]+" client exists"] = ctx
	}
	// short trusting periods (the consensus state's own timestamp is close to `now`)
	{
		ctx := h.Ctx(now)
		v := bscVariants(0)[0]
		b := v.cs.(*bsctypes.ClientState)
		b.TrustingPeriod = 3600
		b.Header.Time = uint64(now.Unix())
		cons := &bsctypes.ConsensusState{Timestamp: uint64(now.Unix()), Height: b.Header.Height, Root: b.Header.Root}
		k.SetClientState(ctx, clientName, b)
		k.SetClientConsensusState(ctx, clientName, b.Header.Height, cons)
		out["a bsc client with a one-hour trusting period exists"] = ctx
	}
	{
		ctx := h.Ctx(now)
		v := ethVariants(0)[0]
		e := v.cs.(*ethclient.ClientState)
		e.TrustingPeriod = 3600
		e.Header.Time = uint64(now.Unix())
		if err := k.CreateClient(ctx, clientName, e, &ethclient.ConsensusState{Timestamp: uint64(now.Unix()), Height: e.Header.Height, Root: e.Header.Root}); err != nil {
			panic(err)
		}
		out["an eth client with a one-hour trusting period exists"] = ctx
	}
	return out
}

// execute runs the handler the way gov does; returns (err, panic).
func execute(h *c07.Host, ctx sdk.Context, c govtypes.Content) (err error, pan interface{}) {
	defer func() {
		if r := recover(); r != nil {
			pan = r
		}
	}()
	handler := h.C.App.GovKeeper.Router().GetRoute(c.ProposalRoute())
	cctx, _ := ctx.CacheContext()
	return handler(cctx, c), nil
}

func validateBasic(c govtypes.Content) (ok bool) {
	defer func() {
		if r := recover(); r != nil {
			ok = false // a panic during submission is recovered by the transaction runner
		}
	}()
	return c.ValidateBasic() == nil
}

// Run executes all parts.
func Run(r *ev.Run, tier string) (evals, nontrivial int64) {
	max := 1
	if tier == "thorough" {
		max = 2
	}
	h := c07.NewHost()
	// ---- A: xibc client proposals
	states := clientStates(h)
	var stateNames []string
	for n := range states {
		stateNames = append(stateNames, n)
	}
	contents := clientContents(max)
	// execution happens after the voting period: every state also at a later block time
	type execState struct {
		name string
		ctx  sdk.Context
	}
	var execNames []execState
	for _, n := range stateNames {
		execNames = append(execNames, execState{n, states[n]})
		later, _ := states[n].CacheContext()
		execNames = append(execNames, execState{n + ", two days later", later.WithBlockTime(states[n].BlockTime().Add(48 * time.Hour))})
	}
	for _, c := range contents {
		if !validateBasic(c.c) {
			r.Outcome("xibc proposal refused by stateless validation")
			evals++
			continue
		}
		for _, s1 := range stateNames {
			err1, pan1 := execute(h, states[s1], c.c)
			evals++
			if pan1 != nil {
				r.Outcome("xibc proposal panics in the submission dry run (recovered by the transaction runner; never accepted)")
				continue
			}
			if err1 != nil {
				r.Outcome("xibc proposal refused by the submission dry run")
				continue
			}
			nontrivial++
			for _, s2x := range execNames {
				s2 := s2x.name
				err2, pan2 := execute(h, s2x.ctx, c.c)
				evals++
				if evals%503 == 1 {
					r.Sample(map[string]string{"proposal": c.desc, "submitted_in": s1, "executed_in": s2})
				}
				if pan2 != nil {
					r.Violation("C15:accepted-proposal-panics-on-execution/"+strings.Fields(c.desc)[0]+"/"+firstLine(pan2), fmt.Sprintf("proposal {%s} accepted at submission in state '%s' panics when executed in state '%s': %v", c.desc, s1, s2, pan2), map[string]interface{}{"engine": "c15", "proposal": c.desc, "submitted_in": s1, "executed_in": s2})
					r.Outcome("xibc proposal PANICS on execution")
				} else if err2 != nil {
					r.Outcome("accepted xibc proposal fails on execution with an ordinary error")
				} else {
					r.Outcome("accepted xibc proposal executes")
				}
			}
		}
	}
	e2, n2 := aggregateProposals(r, h, max)
	e3, n3 := params(r, tier)
	e4, n4 := genesis(r)
	e5, n5 := govOutcomes(r)
	return evals + e2 + e3 + e4 + e5, nontrivial + n2 + n3 + n4 + n5
}

func firstLine(p interface{}) string {
	s := fmt.Sprint(p)
	if i := strings.IndexAny(s, "\n"); i >= 0 {
		s = s[:i]
	}
	f := strings.Fields(s)
	if len(f) > 5 {
		f = f[:5]
	}
	return strings.Join(f, "-")
}

// ---- B: aggregate proposals
func aggregateProposals(r *ev.Run, h *c07.Host, max int) (evals, nontrivial int64) {
	now := time.Unix(1_700_000_100, 0)
	k := h.C.App.AggregateKeeper
	deployer := h.C.Accounts["r1"].Eth
	mk := func(f func(ctx sdk.Context)) sdk.Context {
		ctx := h.Ctx(now)
		h.C.App.EvmKeeper.WithChainID(ctx)
		for _, d := range []string{"acoin", "bcoin", "ccoin"} {
			if err := h.C.App.BankKeeper.MintCoins(ctx, aggregatetypes.ModuleName, sdk.NewCoins(sdk.NewInt64Coin(d, 1000))); err != nil {
				panic(err)
			}
		}
		f(ctx)
		return ctx
	}
	var erc, erc2, modTok common.Address
	states := map[string]sdk.Context{}
	states["no pairs"] = mk(func(ctx sdk.Context) {
		erc = world.DeployERC20From(h.C, ctx, deployer, "ext")
		erc2 = world.DeployERC20From(h.C, ctx, deployer, "ext")
	})
	states["pairs exist"] = mk(func(ctx sdk.Context) {
		world.DeployERC20From(h.C, ctx, deployer, "ext")
		world.DeployERC20From(h.C, ctx, deployer, "ext")
		p, err := k.RegisterCoin(ctx, c13.Meta("acoin", "acoin"))
		if err != nil {
			panic(err)
		}
		modTok = common.HexToAddress(p.ERC20Address)
		if _, err := k.AddCoin(ctx, c13.Meta("bcoin", "bcoin"), p.ERC20Address); err != nil {
			panic(err)
		}
		if _, err := k.RegisterERC20(ctx, erc); err != nil {
			panic(err)
		}
	})
	states["module disabled"] = mk(func(ctx sdk.Context) {
		world.DeployERC20From(h.C, ctx, deployer, "ext")
		world.DeployERC20From(h.C, ctx, deployer, "ext")
		p := k.GetParams(ctx)
		p.EnableAggregate = false
		k.SetParams(ctx, p)
	})
	// bank metadata already stored for a base denomination (genesis, or an earlier proposal for the same base that was
	// still in its voting period when this one was submitted), with more / fewer denomination units than the proposal lists
	for _, nm := range []string{"ccoin", "Coin C"} {
		nm := nm
		states["bank metadata of ccoin ("+nm+") stored with three units"] = mk(func(ctx sdk.Context) {
			world.DeployERC20From(h.C, ctx, deployer, "ext")
			world.DeployERC20From(h.C, ctx, deployer, "ext")
			m := c13.Meta("ccoin", nm)
			m.DenomUnits = append(m.DenomUnits, &banktypes.DenomUnit{Denom: "kccoin", Exponent: 9})
			h.C.App.BankKeeper.SetDenomMetaData(ctx, m)
		})
		states["bank metadata of ccoin ("+nm+") stored with one unit"] = mk(func(ctx sdk.Context) {
			world.DeployERC20From(h.C, ctx, deployer, "ext")
			world.DeployERC20From(h.C, ctx, deployer, "ext")
			m := c13.Meta("ccoin", nm)
			m.DenomUnits = m.DenomUnits[:1]
			h.C.App.BankKeeper.SetDenomMetaData(ctx, m)
		})
	}
	// the external token changes its behaviour between submission and execution (an upgradeable token): at the same
	// address a contract that still answers two of name()/symbol()/decimals() with a string and reverts on the third
	for _, q := range []struct {
		what string
		sel  []byte
	}{{"decimals()", []byte{0x31, 0x3c, 0xe5, 0x67}}, {"symbol()", []byte{0x95, 0xd8, 0x9b, 0x41}}, {"name()", []byte{0x06, 0xfd, 0xde, 0x03}}} {
		q := q
		states["the external erc20 now reverts on "+q.what] = mk(func(ctx sdk.Context) {
			world.DeployERC20From(h.C, ctx, deployer, "ext")
			world.DeployERC20From(h.C, ctx, deployer, "ext")
			code := append([]byte{0x60, 0x00, 0x35, 0x60, 0xe0, 0x1c, 0x63}, q.sel...)
			code = append(code, 0x14, 0x60, 0x42, 0x57, 0x60, 0x20, 0x60, 0x00, 0x52, 0x60, 0x01, 0x60, 0x20, 0x52, 0x7f, 'x')
			code = append(code, make([]byte, 31)...)
			code = append(code, 0x60, 0x40, 0x52, 0x60, 0x60, 0x60, 0x00, 0xf3, 0x5b, 0x60, 0x00, 0x60, 0x00, 0xfd)
			if len(code) != 0x42+6 {
				panic(fmt.Sprintf("faulty token runtime is %d bytes", len(code)))
			}
			codeHash := crypto.Keccak256Hash(code)
			h.C.App.EvmKeeper.SetCode(ctx, codeHash.Bytes(), code)
			acc := h.C.App.EvmKeeper.GetAccount(ctx, erc)
			acc.CodeHash = codeHash.Bytes()
			if err := h.C.App.EvmKeeper.SetAccount(ctx, erc, *acc); err != nil {
				panic(err)
			}
		})
	}
	addrs := map[string]string{"external erc20": erc.Hex(), "second erc20": erc2.Hex(), "module-owned token": modTok.Hex(), "an account without code": deployer.Hex(),
		"the zero address": common.Address{}.Hex(), "the packet contract": "0x0000000000000000000000000000000020000001", "not hex": "zz", "short hex": "0x1234"}
	var contents []content
	for _, mv := range []struct{ d, base, name string }{{"well-formed", "ccoin", "ccoin"}, {"name differs from base", "ccoin", "Coin C"}, {"already registered base", "acoin", "acoin"},
		{"already registered base under another name", "acoin", "Coin A again"}, {"no supply", "zcoin", "zcoin"}, {"evm denom", "stake", "stake"}, {"ibc denom", "ibc/27394FB092D2ECCD56123C74F36E4C1F926001CEADA9CA97EA622B25F41E5EB2", "channel-0 coin"}} {
		m := c13.Meta(mv.base, mv.name)
		if strings.HasPrefix(mv.base, "ibc/") {
			m.Symbol = "ibcX"
		}
		contents = append(contents, content{"RegisterCoin " + mv.d, &aggregatetypes.RegisterCoinProposal{Title: "t", Description: "d", Metadata: m}, 1})
		for an, a := range addrs {
			contents = append(contents, content{"AddCoin " + mv.d + " to " + an, &aggregatetypes.AddCoinProposal{Title: "t", Description: "d", Metadata: m, ContractAddress: a}, 1})
		}
	}
	// degenerate metadata: exponent 255+, empty units
	{
		m := c13.Meta("ccoin", "ccoin")
		m.DenomUnits[1].Exponent = 300
		contents = append(contents, content{"RegisterCoin exponent 300", &aggregatetypes.RegisterCoinProposal{Title: "t", Description: "d", Metadata: m}, 1})
		m2 := c13.Meta("ccoin", "ccoin")
		m2.DenomUnits = nil
		contents = append(contents, content{"RegisterCoin without denom units", &aggregatetypes.RegisterCoinProposal{Title: "t", Description: "d", Metadata: m2}, 1})
	}
	for an, a := range addrs {
		contents = append(contents,
			content{"RegisterERC20 " + an, aggregatetypes.NewRegisterERC20Proposal("t", "d", a), 1},
			content{"ToggleTokenRelay " + an, aggregatetypes.NewToggleTokenRelayProposal("t", "d", a), 1},
			content{"DisableTimeBasedSupplyLimit " + an, aggregatetypes.NewDisableTimeBasedSupplyLimitProposal("t", "d", a), 1},
			content{"RegisterERC20Trace " + an, aggregatetypes.NewRegisterERC20TraceProposal("t", "d", a, "0xorigin", "chain-x", 0), 1},
			content{"RegisterERC20Trace scale 18 " + an, aggregatetypes.NewRegisterERC20TraceProposal("t", "d", a, "0xorigin", "chain-x", 18), 1},
		)
		for _, lim := range [][4]string{{"3600", "1000", "100", "1"}, {"1", "3", "2", "1"}, {"115792089237316195423570985008687907853269984665640564039457584007913129639936", "115792089237316195423570985008687907853269984665640564039457584007913129639938", "115792089237316195423570985008687907853269984665640564039457584007913129639937", "115792089237316195423570985008687907853269984665640564039457584007913129639936"}, {"0", "1", "1", "1"}, {"abc", "1", "1", "1"}} {
			contents = append(contents, content{fmt.Sprintf("EnableTimeBasedSupplyLimit %s %v", an, lim[:1]), aggregatetypes.NewEnableTimeBasedSupplyLimitProposal("t", "d", a, lim[0], lim[1], lim[2], lim[3]), 1})
		}
		for bn, b := range addrs {
			contents = append(contents, content{"UpdateTokenPairERC20 " + an + " -> " + bn, aggregatetypes.NewUpdateTokenPairERC20Proposal("t", "d", a, b), 1})
		}
	}
	for _, t := range []string{"acoin", "bcoin", "ccoin", "nocoin", "a", ""} {
		contents = append(contents, content{"ToggleTokenRelay denom " + t, aggregatetypes.NewToggleTokenRelayProposal("t", "d", t), 1})
	}
	var names []string
	for n := range states {
		names = append(names, n)
	}
	sort.Strings(names)
	for _, c := range contents {
		if !validateBasic(c.c) {
			r.Outcome("aggregate proposal refused by stateless validation")
			evals++
			continue
		}
		for _, s1 := range names {
			err1, pan1 := execute(h, states[s1], c.c)
			evals++
			if pan1 != nil || err1 != nil {
				r.Outcome("aggregate proposal refused by the submission dry run")
				continue
			}
			nontrivial++
			for _, s2 := range names {
				err2, pan2 := execute(h, states[s2], c.c)
				evals++
				if pan2 != nil {
					r.Violation("C15:accepted-proposal-panics-on-execution/"+strings.Fields(c.desc)[0]+"/"+firstLine(pan2), fmt.Sprintf("proposal {%s} accepted in state '%s' panics in state '%s': %v", c.desc, s1, s2, pan2), map[string]interface{}{"engine": "c15", "proposal": c.desc, "submitted_in": s1, "executed_in": s2})
				} else if err2 != nil {
					r.Outcome("accepted aggregate proposal fails on execution with an ordinary error")
				} else {
					r.Outcome("accepted aggregate proposal executes")
				}
			}
		}
	}
	return
}

// ---- C: parameter values accepted by validation, followed by real blocks over several pool balances
func params(r *ev.Run, tier string) (evals, nontrivial int64) {
	coin := func(d string, a int64) string { return fmt.Sprintf(`{"denom":"%s","amount":"%d"}`, d, a) }
	amounts := []int64{0, 1, 3}
	var rewards []string
	for _, x := range amounts {
		rewards = append(rewards, "["+coin("aaa", x)+"]")
		for _, y := range amounts {
			rewards = append(rewards, "["+coin("aaa", x)+","+coin("bbb", y)+"]", "["+coin("bbb", y)+","+coin("aaa", x)+"]", "["+coin("aaa", x)+","+coin("aaa", y)+"]")
		}
	}
	// three entries: a denomination repeated with another one in between, and three distinct ones
	for _, x := range amounts[1:] {
		for _, y := range amounts {
			rewards = append(rewards, "["+coin("aaa", x)+","+coin("bbb", y)+","+coin("aaa", x)+"]", "["+coin("bbb", x)+","+coin("aaa", y)+","+coin("bbb", x)+"]",
				"["+coin("aaa", x)+","+coin("bbb", y)+","+coin("ccc", x)+"]", "["+coin("aaa", x)+","+coin("aaa", y)+","+coin("bbb", x)+"]")
		}
	}
	rewards = append(rewards, `[]`, `[{"denom":"aaa","amount":"-1"}]`, `[{"denom":"","amount":"1"}]`, `[{"denom":"aaa","amount":"340282366920938463463374607431768211456"}]`, `null`, `[{"denom":"a a","amount":"1"}]`)
	pools := [][2]int64{{0, 0}, {1, 0}, {2, 2}, {5, 5}}
	if tier == "thorough" {
		pools = append(pools, [2]int64{1, 1}, [2]int64{3, 0}, [2]int64{0, 5}, [2]int64{6, 6})
	}
	changes := []paramproposal.ParamChange{}
	for _, rw := range rewards {
		changes = append(changes, paramproposal.ParamChange{Subspace: rvtypes.ModuleName, Key: "PerBlockReward", Value: rw})
	}
	for _, b := range []string{"true", "false", "1", `"true"`, "null"} {
		changes = append(changes,
			paramproposal.ParamChange{Subspace: rvtypes.ModuleName, Key: "EnableVesting", Value: b},
			paramproposal.ParamChange{Subspace: aggregatetypes.ModuleName, Key: "EnableAggregate", Value: b},
			paramproposal.ParamChange{Subspace: aggregatetypes.ModuleName, Key: "EnableEVMHook", Value: b})
	}
	return paramsRun(r, changes, pools)
}

var _ = tmtypes.MaxTotalVotingPower
