package c16

import (
	"github.com/ethereum/go-ethereum/accounts/abi"

	erc20contracts "github.com/teleport-network/teleport/syscontracts/erc20"
)

func erc20ABI() abi.ABI { return erc20contracts.ERC20MinterBurnerDecimalsContract.ABI }
