// Package c16 decides C16: the aggregate ICS-20 middleware is transparent
// (the transfer application's acknowledgement survives) and its automatic
// coin-to-token conversion is atomic. Exhaustive enumeration of packets x
// registry states, each given to the real middleware and, on a sibling branch
// of the same state, to the wrapped transfer module alone.
package c16

import (
	"bytes"
	"fmt"
	"github.com/cosmos/cosmos-sdk/x/params"
	paramproposal "github.com/cosmos/cosmos-sdk/x/params/types/proposal"
	ibcexported "github.com/cosmos/ibc-go/v3/modules/core/exported"
	evmtypes "github.com/tharsis/ethermint/x/evm/types"
	"math/big"
	"sort"
	"strings"

	sdk "github.com/cosmos/cosmos-sdk/types"
	authtypes "github.com/cosmos/cosmos-sdk/x/auth/types"

	ibctransfer "github.com/cosmos/ibc-go/v3/modules/apps/transfer"
	transfertypes "github.com/cosmos/ibc-go/v3/modules/apps/transfer/types"
	clienttypes "github.com/cosmos/ibc-go/v3/modules/core/02-client/types"
	channeltypes "github.com/cosmos/ibc-go/v3/modules/core/04-channel/types"

	"github.com/ethereum/go-ethereum/common"

	aggregatetypes "github.com/teleport-network/teleport/x/aggregate/types"

	"verif/internal/checks/c13"
	"verif/internal/ev"
	"verif/internal/world"
)

const (
	port    = "transfer"
	channel = "channel-0"
	backCh  = "channel-7"
)

type packetCase struct {
	Denom    string // "uatom" (foreign coin), "other" (unregistered foreign coin), "native" (returning stake)
	Amount   string
	Receiver string // "valid" | "malformed" | "blocked" | "zero" (the zero address: the ERC-20 mint of the conversion reverts after the escrow step) | "long" (a 32-byte address without an account)
}

// longReceiver is a 32-byte account address (the length interchain accounts and other module-derived accounts have): no
// account exists under it, nor under its 20-byte EVM form, before the packet arrives.
var longReceiver = sdk.AccAddress(bytes.Repeat([]byte{0x5a}, 32))

func (p packetCase) String() string {
	return fmt.Sprintf("%s amount=%s receiver=%s", p.Denom, p.Amount, p.Receiver)
}

var big256 = "115792089237316195423570985008687907853269984665640564039457584007913129639937"

// Run executes the enumeration.
func Run(r *ev.Run, tier string) (evals, nontrivial int64) {
	w := world.NewWorld()
	c := w.Add("teleport_9000-10", world.Options{Accounts: []string{"u1", "rel"}, ExtraCoins: map[string]sdk.Coins{"u1": sdk.NewCoins(sdk.NewInt64Coin("acoin", 100))}})
	w.Block(c)
	u1 := c.Accounts["u1"]
	voucher := transfertypes.ParseDenomTrace(transfertypes.GetDenomPrefix(port, channel) + "uatom").IBCDenom()
	mw, ok := c.App.IBCKeeper.Router.GetRoute(transfertypes.ModuleName)
	if !ok {
		panic("no transfer route")
	}
	inner := ibctransfer.NewIBCModule(c.App.IBCTransferKeeper)

	mkPacket := func(pc packetCase, seq uint64) channeltypes.Packet {
		recv := u1.Acc.String()
		switch pc.Receiver {
		case "malformed":
			recv = "not-an-address"
		case "blocked":
			recv = authtypes.NewModuleAddress(authtypes.FeeCollectorName).String()
		case "zero":
			recv = sdk.AccAddress(make([]byte, 20)).String()
		case "long":
			recv = longReceiver.String()
		}
		srcCh := channel
		denom := pc.Denom
		switch pc.Denom {
		case "native":
			denom = transfertypes.GetDenomPrefix(port, backCh) + "stake"
			srcCh = backCh
		case "other":
			denom = "uosmo"
		case "multihop":
			denom = "transfer/channel-9/uatom" // arrives as ibc/hash(transfer/channel-0/transfer/channel-9/uatom), never the registered direct voucher
		}
		data := transfertypes.FungibleTokenPacketData{Denom: denom, Amount: pc.Amount, Sender: "cosmos1sender", Receiver: recv}
		dstCh := channel
		if pc.Denom == "native" {
			dstCh = backCh
		}
		return channeltypes.NewPacket(data.GetBytes(), seq, port, srcCh, port, dstCh, clienttypes.NewHeight(0, 1000), 0)
	}

	// registry states
	type state struct {
		name string
		ctx  func() sdk.Context
	}
	mk := func(f func(ctx sdk.Context)) func() sdk.Context {
		return func() sdk.Context {
			ctx := c.ReadCtx()
			// escrow for returning native coins
			esc := transfertypes.GetEscrowAddress(port, backCh)
			if err := c.App.BankKeeper.SendCoins(ctx, u1.Acc, esc, sdk.NewCoins(sdk.NewInt64Coin("stake", 50))); err != nil {
				panic(err)
			}
			f(ctx)
			return ctx
		}
	}
	register := func(ctx sdk.Context) {
		// the voucher must exist before it can be registered: a first packet mints it
		ack := inner.OnRecvPacket(ctx, mkPacket(packetCase{"uatom", "5", "valid"}, 1), c.Accounts["rel"].Acc)
		if !ack.Success() {
			panic("setup receive failed")
		}
		m := c13.Meta(voucher, "uatom channel-0")
		m.Symbol = "ibcATOM"
		if _, err := c.App.AggregateKeeper.RegisterCoin(ctx, m); err != nil {
			panic(err)
		}
	}
	states := []state{
		{"no pair", mk(func(ctx sdk.Context) {})},
		{"pair enabled", mk(register)},
		{"pair enabled", mk(func(ctx sdk.Context) {
			// the voucher is the SECOND denomination of a pair whose first denomination the receiver also holds
			ack := inner.OnRecvPacket(ctx, mkPacket(packetCase{"uatom", "5", "valid"}, 1), c.Accounts["rel"].Acc)
			if !ack.Success() {
				panic("setup receive failed")
			}
			p, err := c.App.AggregateKeeper.RegisterCoin(ctx, c13.Meta("acoin", "acoin"))
			if err != nil {
				panic(err)
			}
			m := c13.Meta(voucher, "uatom channel-0")
			m.Symbol = "ibcATOM"
			if _, err := c.App.AggregateKeeper.AddCoin(ctx, m, p.ERC20Address); err != nil {
				panic(err)
			}
		})},
		{"pair enabled, EVM calls disabled by governance", mk(func(ctx sdk.Context) {
			register(ctx)
			ep := c.App.EvmKeeper.GetParams(ctx)
			ep.EnableCall = false
			c.App.EvmKeeper.SetParams(ctx, ep)
		})},
		{"pair enabled: voucher added to an externally owned ERC-20 whose tokens the module holds in escrow", mk(func(ctx sdk.Context) {
			// the voucher exists; a third-party token is registered; u1 converts 50 tokens (escrowed by the module), then governance
			// adds the voucher to that pair: a received voucher is then *burned* and the receiver gets escrowed tokens
			if ack := inner.OnRecvPacket(ctx, mkPacket(packetCase{"uatom", "5", "valid"}, 1), c.Accounts["rel"].Acc); !ack.Success() {
				panic("setup receive failed")
			}
			tok := world.DeployERC20From(c, ctx, u1.Eth, "ext")
			world.KeeperCall(c, ctx, erc20ABI(), u1.Eth, tok, "mint", u1.Eth, big.NewInt(1000))
			if _, err := c.App.AggregateKeeper.RegisterERC20(ctx, tok); err != nil {
				panic(err)
			}
			if _, err := c.App.AggregateKeeper.ConvertERC20(sdk.WrapSDKContext(ctx), aggregatetypes.NewMsgConvertERC20(sdk.NewInt(50), u1.Acc, tok, u1.Eth, aggregatetypes.CreateDenom(tok.Hex()))); err != nil {
				panic(err)
			}
			m := c13.Meta(voucher, "uatom channel-0")
			m.Symbol = "ibcATOM"
			if _, err := c.App.AggregateKeeper.AddCoin(ctx, m, tok.Hex()); err != nil {
				panic(err)
			}
		})},
		{"pair disabled", mk(func(ctx sdk.Context) {
			register(ctx)
			if _, err := c.App.AggregateKeeper.ToggleRelay(ctx, voucher); err != nil {
				panic(err)
			}
		})},
		{"module disabled", mk(func(ctx sdk.Context) {
			register(ctx)
			// switched off the way governance does it: parameter-change proposal addressing the raw key
			prop := paramproposal.NewParameterChangeProposal("t", "d", []paramproposal.ParamChange{{Subspace: aggregatetypes.ModuleName, Key: "EnableAggregate", Value: "false"}})
			if err := params.NewParamChangeProposalHandler(c.App.ParamsKeeper)(ctx, prop); err != nil {
				panic(err)
			}
		})},
	}
	var packets []packetCase
	for _, d := range []string{"uatom", "other", "native", "multihop"} {
		for _, a := range []string{"1", "3", "0", "abc", big256, "-1", ""} {
			for _, rc := range []string{"valid", "malformed", "blocked", "zero", "long"} {
				packets = append(packets, packetCase{d, a, rc})
			}
		}
	}
	observeFor := func(ctx sdk.Context, who sdk.AccAddress) map[string]string {
		out := map[string]string{}
		for _, d := range []string{voucher, "stake"} {
			out["u1/"+d] = c.App.BankKeeper.GetBalance(ctx, who, d).Amount.String()
			out["module/"+d] = c.App.BankKeeper.GetBalance(ctx, authtypes.NewModuleAddress(aggregatetypes.ModuleName), d).Amount.String()
		}
		out["supply/"+voucher] = c.App.BankKeeper.GetSupply(ctx, voucher).Amount.String()
		out["collector/"+voucher] = c.App.BankKeeper.GetBalance(ctx, authtypes.NewModuleAddress(authtypes.FeeCollectorName), voucher).Amount.String()
		out["erc20/u1"] = "0"
		if id := c.App.AggregateKeeper.GetDenomMap(ctx, voucher); len(id) > 0 {
			if p, ok := c.App.AggregateKeeper.GetTokenPair(ctx, id); ok {
				// the observer's own call: on a throw-away branch with EVM calls enabled, and shielded from panics of the helper
				cc, _ := ctx.CacheContext()
				ep := c.App.EvmKeeper.GetParams(cc)
				ep.EnableCall = true
				c.App.EvmKeeper.SetParams(cc, ep)
				var res *evmtypes.MsgEthereumTxResponse
				var err error
				func() {
					defer func() {
						if rec := recover(); rec != nil {
							err = fmt.Errorf("panic: %v", rec)
						}
					}()
					res, err = c.App.AggregateKeeper.CallEVM(cc, erc20ABI(), aggregatetypes.ModuleAddress, p.GetERC20Contract(), "balanceOf", common.BytesToAddress(who))
				}()
				if err == nil && res != nil {
					if vals, err := erc20ABI().Unpack("balanceOf", res.Ret); err == nil {
						out["erc20/u1"] = fmt.Sprint(vals[0])
					}
				}
			}
		}
		return out
	}
	one := func(stName string, base sdk.Context, seq []packetCase) {
		ctxM, _ := base.CacheContext()
		ctxI, _ := base.CacheContext()
		c.App.EvmKeeper.WithChainID(ctxM)
		for i, pc := range seq {
			pkt := mkPacket(pc, uint64(10+i))
			who := u1.Acc
			if pc.Receiver == "zero" {
				who = sdk.AccAddress(make([]byte, 20))
			}
			if pc.Receiver == "long" {
				who = longReceiver
			}
			beforeM := observeFor(ctxM, who)
			balM0, balI0 := c.App.BankKeeper.GetAllBalances(ctxM, who), c.App.BankKeeper.GetAllBalances(ctxI, who)
			var ackM ibcexported.Acknowledgement
			panicked := false
			func() {
				defer func() {
					if rec := recover(); rec != nil {
						panicked = true
						r.Violation("C16:middleware-panics-on-receive", fmt.Sprintf("state %q, packet %s: %v", stName, pc, rec), map[string]interface{}{"engine": "c16", "registry": stName, "packet": pc.String()})
					}
				}()
				ackM = mw.OnRecvPacket(ctxM, pkt, c.Accounts["rel"].Acc)
			}()
			if panicked {
				return
			}
			ackI := inner.OnRecvPacket(ctxI, pkt, c.Accounts["rel"].Acc)
			afterM := observeFor(ctxM, who)
			balM1, balI1 := c.App.BankKeeper.GetAllBalances(ctxM, who), c.App.BankKeeper.GetAllBalances(ctxI, who)
			evals++
			desc := map[string]interface{}{"registry": stName, "packets": fmt.Sprint(seq), "index": i}
			if evals%29 == 1 {
				r.Sample(desc)
			}
			// (1) transparency
			switch {
			case ackM == nil:
				r.Outcome(fmt.Sprintf("middleware returns NO acknowledgement (transfer app: success=%v)", ackI.Success()))
				r.Violation("C16:middleware-drops-the-transfer-acknowledgement", fmt.Sprintf("state %q, packet %s: the transfer application returns an acknowledgement (success=%v) but the middleware returns nil, so none is committed", stName, pc, ackI.Success()), map[string]interface{}{"engine": "c16", "case": desc})
			case ackM.Success() != ackI.Success() || !bytes.Equal(ackM.Acknowledgement(), ackI.Acknowledgement()):
				r.Outcome("middleware changes the acknowledgement")
				r.Violation("C16:middleware-changes-the-acknowledgement", fmt.Sprintf("state %q, packet %s: transfer app %s, middleware %s", stName, pc, ackI.Acknowledgement(), ackM.Acknowledgement()), map[string]interface{}{"engine": "c16", "case": desc})
			default:
				r.Outcome(fmt.Sprintf("acknowledgement preserved (success=%v)", ackI.Success()))
			}
			// (3) a packet that does not carry the registered voucher: the receiver's coins and tokens change exactly as under the transfer application alone
			if pc.Denom != "uatom" {
				dM, dI := fmt.Sprint(coinDelta(balM0, balM1)), fmt.Sprint(coinDelta(balI0, balI1))
				dE := diffInt(beforeM["erc20/u1"], afterM["erc20/u1"])
				dEsc := diffInt(beforeM["module/"+voucher], afterM["module/"+voucher])
				if dM != dI || !dE.IsZero() || !dEsc.IsZero() {
					r.Violation("C16:converted-coins-the-packet-did-not-carry", fmt.Sprintf("state %q, packet %s: receiver coins changed by %s (transfer application alone: %s), receiver tokens %s, escrowed vouchers %s", stName, pc, dM, dI, dE, dEsc), map[string]interface{}{"engine": "c16", "case": desc})
				} else {
					r.Outcome("packet of another denomination: same effect as the transfer application alone")
				}
			}
			// (2) atomic conversion of the received voucher
			if pc.Denom == "uatom" && ackI.Success() {
				amt, _ := sdk.NewIntFromString(pc.Amount)
				dV := diffInt(beforeM["u1/"+voucher], afterM["u1/"+voucher])
				dE := diffInt(beforeM["erc20/u1"], afterM["erc20/u1"])
				dM := diffInt(beforeM["module/"+voucher], afterM["module/"+voucher])
				dS := diffInt(beforeM["supply/"+voucher], afterM["supply/"+voucher])
				dC := diffInt(beforeM["collector/"+voucher], afterM["collector/"+voucher])
				// module-owned pair: the vouchers are escrowed; externally owned token: the vouchers are burned (supply back to what it was)
				converted := dE.Equal(amt) && dM.Equal(amt) && dV.IsZero() && dS.Equal(amt)
				if strings.Contains(stName, "externally owned") {
					converted = dE.Equal(amt) && dM.IsZero() && dV.IsZero() && dS.IsZero()
				}
				if !dC.IsZero() {
					r.Violation("C16:received-vouchers-leaked-to-the-fee-collector", fmt.Sprintf("state %q, packet %s: fee collector vouchers %+v", stName, pc, dC), map[string]interface{}{"engine": "c16", "case": desc})
				}
				untouched := dV.Equal(amt) && dE.IsZero() && dM.IsZero()
				switch {
				case converted:
					r.Outcome("received vouchers converted in full")
					nontrivial++
				case untouched:
					r.Outcome("received vouchers left untouched in the receiver's account")
					nontrivial++
				default:
					r.Violation("C16:conversion-neither-complete-nor-absent", fmt.Sprintf("state %q, packet %s: receiver vouchers %+v, receiver tokens %+v, escrowed vouchers %+v for amount %s", stName, pc, dV, dE, dM, amt), map[string]interface{}{"engine": "c16", "case": desc})
				}
				if !strings.HasPrefix(stName, "pair enabled") && converted && !amt.IsZero() {
					r.Violation("C16:conversion-while-disabled-or-unregistered", fmt.Sprintf("state %q, packet %s", stName, pc), nil)
				}
			}
		}
	}
	for _, st := range states {
		base := st.ctx()
		for _, p := range packets {
			one(st.name, base, []packetCase{p})
		}
		// two packets in sequence (all pairs of a reduced set)
		second := []packetCase{{"uatom", "1", "valid"}, {"uatom", "3", "valid"}, {"other", "1", "valid"}, {"native", "1", "valid"}, {"uatom", "abc", "valid"}, {"uatom", "2", "zero"}, {"multihop", "2", "valid"}}
		first := second
		if tier == "thorough" {
			first = packets
		}
		for _, a := range first {
			for _, b := range second {
				one(st.name, base, []packetCase{a, b})
			}
		}
	}
	return
}

// coinDelta lists after-before per denomination (sorted by denomination).
func coinDelta(before, after sdk.Coins) []string {
	seen := map[string]bool{}
	var ds []string
	for _, c := range append(append(sdk.Coins{}, before...), after...) {
		if !seen[c.Denom] {
			seen[c.Denom] = true
			ds = append(ds, c.Denom)
		}
	}
	sort.Strings(ds)
	var out []string
	for _, d := range ds {
		if x := after.AmountOf(d).Sub(before.AmountOf(d)); !x.IsZero() {
			out = append(out, x.String()+d)
		}
	}
	return out
}

func diffInt(a, b string) sdk.Int {
	x, _ := sdk.NewIntFromString(a)
	y, _ := sdk.NewIntFromString(b)
	return y.Sub(x)
}

var _ = strings.TrimSpace
