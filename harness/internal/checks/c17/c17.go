// Package c17 decides C17: staking / governance actions triggered through the
// system contracts act for the caller only, exactly, once per event, only for
// events of the system contract itself, atomically with the EVM transaction,
// and "burned" coins go to the fee collector. Explicit-state search over
// sequences of real EVM transactions on one real chain with two validators.
package c17

import (
	"encoding/json"
	"fmt"
	"math/big"
	"sort"
	"strings"

	"github.com/cosmos/cosmos-sdk/codec"
	sdk "github.com/cosmos/cosmos-sdk/types"
	authtypes "github.com/cosmos/cosmos-sdk/x/auth/types"
	banktypes "github.com/cosmos/cosmos-sdk/x/bank/types"
	distrtypes "github.com/cosmos/cosmos-sdk/x/distribution/types"
	govtypes "github.com/cosmos/cosmos-sdk/x/gov/types"
	stakingtypes "github.com/cosmos/cosmos-sdk/x/staking/types"

	"github.com/ethereum/go-ethereum/accounts/abi"
	"github.com/ethereum/go-ethereum/common"
	"github.com/ethereum/go-ethereum/crypto"

	"github.com/teleport-network/teleport/syscontracts"
	govcontract "github.com/teleport-network/teleport/syscontracts/gov"
	stakingcontract "github.com/teleport-network/teleport/syscontracts/staking"

	"verif/internal/bfs"
	"verif/internal/world"
)

// forwarder: slot0 += 1; then call target (first calldata word) with the rest; revert if that EVM call fails.
var forwarderRuntime = common.FromHex("6001600054016000" + "55" + "602036038060206000376000600082600060006000355af115602657005b60006000fd")

// emitter: LOG1 with topic = first calldata word and data = the rest (a look-alike event from a foreign address).
var emitterRuntime = common.FromHex("602036038060206000376000359060" + "00a100")

// double forwarder: calldata = target word | len1 word | payload1 | payload2; performs both calls in one transaction;
// reverts if either EVM call fails.
var forwarder2Runtime = common.FromHex("602035" + "80" + "6040600037" + "600060008260006000600035" + "5af1" + "15" + "603a57" + "80604001" + "803603" + "8082600037" + "600060008260006000600035" + "5af1" + "15" + "603a57" + "00" + "5b60006000fd")

// two-target forwarder: calldata = target1 word | len1 word | target2 word | payload1 | payload2 (a staking call and a
// governance call in one transaction: each system contract's event is preceded or followed by a foreign one).
var forwarder3Runtime = common.FromHex("602035" + "80" + "6060600037" + "600060008260006000600035" + "5af1" + "15" + "603a57" + "80606001" + "803603" + "8082600037" + "600060008260006000604035" + "5af1" + "15" + "603a57" + "00" + "5b60006000fd")

func initCode(runtime []byte) []byte {
	n := byte(len(runtime))
	return append([]byte{0x60, n, 0x60, 0x0c, 0x60, 0x00, 0x39, 0x60, n, 0x60, 0x00, 0xf3}, runtime...)
}

type Config struct {
	Ops   []string
	Depth int
}

type Sys struct {
	cfg      Config
	w        *world.World
	c        *world.Chain
	fwd, emt common.Address
	fwd2     common.Address
	fwd3     common.Address
	vals     []string // operator addresses
	// reference model
	del   map[string]*big.Int // "<delegator hex>/<validator index>" -> tokens
	votes map[string]string // "<voter hex>" -> option description
	pid   uint64
	slashed bool
	halted  bool // block processing panicked: the instance is unusable
}

var stakingAddr = common.HexToAddress(syscontracts.StakingContractAddress)
var govAddr = common.HexToAddress(syscontracts.GovContractAddress)

func parseABI(s string) abi.ABI {
	a, err := abi.JSON(strings.NewReader(s))
	if err != nil {
		panic(err)
	}
	return a
}

var stakingABI = parseABI(stakingcontract.StakingMetaData.ABI)
var govABI = parseABI(govcontract.GovMetaData.ABI)

func New(cfg Config) *Sys {
	s := &Sys{cfg: cfg, w: world.NewWorld(), del: map[string]*big.Int{}, votes: map[string]string{}}
	s.c = s.w.Add("teleport_9000-10", world.Options{Accounts: []string{"u1", "u2"}, ExtraCoins: map[string]sdk.Coins{"u2": sdk.NewCoins(sdk.NewCoin("stake", sdk.NewIntWithDecimal(50, 18)))}, NumVals: 2, GenesisMod: func(cdc codec.Codec, gs map[string]json.RawMessage) {
		var g govtypes.GenesisState
		cdc.MustUnmarshalJSON(gs[govtypes.ModuleName], &g)
		g.VotingParams.VotingPeriod = 40_000_000_000 // 40 s
		g.DepositParams.MinDeposit = sdk.NewCoins(sdk.NewInt64Coin("stake", 100))
		gs[govtypes.ModuleName] = cdc.MustMarshalJSON(&g)
	}})
	s.w.Block(s.c)
	for _, v := range s.c.Vals.Validators {
		s.vals = append(s.vals, sdk.ValAddress(v.Address).String())
	}
	sort.Strings(s.vals)
	u1 := s.c.Accounts["u1"]
	nonce := s.c.App.EvmKeeper.GetNonce(s.c.ReadCtx(), u1.Eth)
	s.fwd = crypto.CreateAddress(u1.Eth, nonce)
	s.emt = crypto.CreateAddress(u1.Eth, nonce+1)
	s.fwd2 = crypto.CreateAddress(u1.Eth, nonce+2)
	s.fwd3 = crypto.CreateAddress(u1.Eth, nonce+3)
	r := s.w.Block(s.c, s.c.EthTxNonce(u1, nonce, nil, nil, initCode(forwarderRuntime)), s.c.EthTxNonce(u1, nonce+1, nil, nil, initCode(emitterRuntime)), s.c.EthTxNonce(u1, nonce+2, nil, nil, initCode(forwarder2Runtime)),
		s.c.EthTxNonce(u1, nonce+3, nil, nil, initCode(forwarder3Runtime)))
	if !r[0].OK() || !r[1].OK() || !r[2].OK() || !r[3].OK() {
		panic("helper contract deployment failed: " + r[0].VMError + r[1].VMError + r[2].VMError + r[3].VMError)
	}
	if rr := s.w.Block(s.c, s.c.CosmosTx(u1, banktypes.NewMsgSend(u1.Acc, sdk.AccAddress(s.fwd3.Bytes()), sdk.NewCoins(sdk.NewInt64Coin("stake", 1000))))); rr[0].Code != 0 {
		panic("funding fwd3 failed: " + rr[0].Log)
	}
	// the double forwarder gets coins of its own (plain transfer: empty calldata reverts inside it, so fund it through the bank)
	fund := banktypes.NewMsgSend(u1.Acc, sdk.AccAddress(s.fwd2.Bytes()), sdk.NewCoins(sdk.NewInt64Coin("stake", 1000)))
	if rr := s.w.Block(s.c, s.c.CosmosTx(u1, fund)); rr[0].Code != 0 {
		panic("funding fwd2 failed: " + rr[0].Log)
	}
	// fund the forwarder (it delegates its own coins) and open a proposal in its voting period
	content := govtypes.NewTextProposal("t", "d")
	msg, err := govtypes.NewMsgSubmitProposal(content, sdk.NewCoins(sdk.NewInt64Coin("stake", 100)), u1.Acc)
	if err != nil {
		panic(err)
	}
	r = s.w.Block(s.c, s.c.EthTx(u1, &s.fwd, big.NewInt(1000), append(common.LeftPadBytes(u1.Eth.Bytes(), 32), 0)))
	if !r[0].OK() {
		panic("funding the forwarder failed: " + r[0].VMError + r[0].Log)
	}
	r = s.w.Block(s.c, s.c.CosmosTx(u1, msg))
	if r[0].Code != 0 {
		panic("proposal submission failed: " + r[0].Log)
	}
	s.pid = 1
	// the genesis delegation of the first account to both validators is part of the model
	for i := range s.vals {
		s.del[fmt.Sprintf("%s/%d", u1.Eth.Hex(), i)] = big.NewInt(1e16)
	}
	return s
}

func (s *Sys) Clone() bfs.System {
	n := *s
	n.w = s.w.Clone()
	n.c = n.w.Chains["teleport_9000-10"]
	n.del = map[string]*big.Int{}
	for k, v := range s.del {
		n.del[k] = new(big.Int).Set(v)
	}
	n.slashed = s.slashed
	n.votes = map[string]string{}
	for k, v := range s.votes {
		n.votes[k] = v
	}
	return &n
}

func (s *Sys) Ops() []string {
	if s.slashed || s.halted {
		return nil // the search ends after a slash (the reference model keeps shares 1:1 with tokens)
	}
	return s.cfg.Ops
}

func (s *Sys) valArg(a string) string {
	switch a {
	case "v0":
		return s.vals[0]
	case "v1":
		return s.vals[1]
	case "vunknown":
		return sdk.ValAddress(s.c.Accounts["u2"].Acc).String()
	}
	return a // malformed text
}

// payload builds the system-contract call for an action.
func (s *Sys) payload(f []string) (to common.Address, data []byte) {
	var err error
	num := func(x string) *big.Int {
		v, ok := new(big.Int).SetString(x, 10)
		if !ok {
			panic(x)
		}
		return v
	}
	switch f[0] {
	case "delegate":
		data, err = stakingABI.Pack("delegate", s.valArg(f[1]), num(f[2]))
		to = stakingAddr
	case "undelegate":
		data, err = stakingABI.Pack("undelegate", s.valArg(f[1]), num(f[2]))
		to = stakingAddr
	case "redelegate":
		data, err = stakingABI.Pack("redelegate", s.valArg(f[1]), s.valArg(f[2]), num(f[3]))
		to = stakingAddr
	case "withdraw":
		data, err = stakingABI.Pack("withdraw", s.valArg(f[1]))
		to = stakingAddr
	case "vote":
		data, err = govABI.Pack("vote", num(f[1]).Uint64(), uint32(num(f[2]).Uint64()))
		to = govAddr
	case "wvote": // wvote <pid> <opt:weight,opt:weight>
		type ow struct {
			Option uint32
			Weight uint64
		}
		var opts []ow
		for _, p := range strings.Split(f[2], ",") {
			var o, w uint64
			fmt.Sscanf(p, "%d:%d", &o, &w)
			opts = append(opts, ow{uint32(o), w})
		}
		data, err = govABI.Pack("vote0", num(f[1]).Uint64(), opts)
		to = govAddr
	default:
		panic("bad action " + f[0])
	}
	if err != nil {
		panic(err)
	}
	return
}

type obs struct {
	bal    map[string]string
	supply string
	del    map[string]string
	votes  map[string]string
	slot   string
}

func (s *Sys) actors() map[string]common.Address {
	return map[string]common.Address{"u1": s.c.Accounts["u1"].Eth, "u2": s.c.Accounts["u2"].Eth, "fwd": s.fwd, "emt": s.emt, "fwd2": s.fwd2, "fwd3": s.fwd3}
}

func (s *Sys) observe() obs {
	ctx := s.c.ReadCtx()
	o := obs{bal: map[string]string{}, del: map[string]string{}, votes: map[string]string{}}
	for n, a := range s.actors() {
		o.bal[n] = s.c.App.BankKeeper.GetBalance(ctx, a.Bytes(), "stake").Amount.String()
		for i, v := range s.vals {
			va, _ := sdk.ValAddressFromBech32(v)
			if d, ok := s.c.App.StakingKeeper.GetDelegation(ctx, a.Bytes(), va); ok {
				o.del[fmt.Sprintf("%s/%d", a.Hex(), i)] = d.Shares.TruncateInt().String()
			}
		}
		if v, ok := s.c.App.GovKeeper.GetVote(ctx, s.pid, a.Bytes()); ok {
			var parts []string
			for _, op := range v.Options {
				parts = append(parts, fmt.Sprintf("%d:%s", op.Option, op.Weight.String()))
			}
			o.votes[a.Hex()] = strings.Join(parts, ",")
		}
	}
	for _, m := range []string{authtypes.FeeCollectorName, "bonded_tokens_pool", "not_bonded_tokens_pool", "gov", "distribution"} {
		o.bal[m] = s.c.App.BankKeeper.GetBalance(ctx, authtypes.NewModuleAddress(m), "stake").Amount.String()
	}
	// the fee collector is swept into the distribution account by every BeginBlock: only their sum is a property of a transaction
	{
		a, _ := new(big.Int).SetString(o.bal[authtypes.FeeCollectorName], 10)
		b, _ := new(big.Int).SetString(o.bal["distribution"], 10)
		delete(o.bal, authtypes.FeeCollectorName)
		delete(o.bal, "distribution")
		o.bal["collector+distribution"] = new(big.Int).Add(a, b).String()
	}
	o.bal["depositor"] = s.c.App.BankKeeper.GetBalance(ctx, s.c.Accounts["u1"].Acc, "stake").Amount.String()
	o.supply = s.c.App.BankKeeper.GetSupply(ctx, "stake").Amount.String()
	o.slot = s.c.App.EvmKeeper.GetState(ctx, s.fwd, common.Hash{}).Hex()
	return o
}

func (o obs) String() string {
	var out []string
	for _, m := range []map[string]string{o.bal, o.del, o.votes} {
		var ks []string
		for k := range m {
			ks = append(ks, k)
		}
		sort.Strings(ks)
		for _, k := range ks {
			out = append(out, k+"="+m[k])
		}
	}
	return strings.Join(out, " ") + " supply=" + o.supply + " slot=" + o.slot
}

func (s *Sys) modelString() string {
	var ks []string
	for k, v := range s.del {
		if v.Sign() != 0 {
			ks = append(ks, fmt.Sprintf("%s=%s", k, v))
		}
	}
	for k, v := range s.votes {
		ks = append(ks, "vote:"+k+"="+v)
	}
	sort.Strings(ks)
	return strings.Join(ks, " ")
}

// Apply: "<path> <user> <action...>" with path in {eoa, fwd, fake} or "advance".
// Apply runs one operation. A panic that escapes block processing (an SDK invariant broken by what a system contract
// was allowed to do halts every node) is a violation; the instance is unusable afterwards and the search ends there.
func (s *Sys) Apply(op string) (out, class string, viols []bfs.Viol) {
	defer func() {
		if rec := recover(); rec != nil {
			s.halted = true
			out, class = "chain halted", "chain halted"
			viols = append(viols, bfs.Viol{Sig: "C17:block-processing-panics-after-system-contract-call", Detail: fmt.Sprintf("%s: %v", op, rec)})
		}
	}()
	return s.apply(op)
}

func (s *Sys) apply(op string) (out, class string, viols []bfs.Viol) {
	add := func(sig, d string) { viols = append(viols, bfs.Viol{Sig: "C17:" + sig, Detail: d}) }
	f := strings.Fields(op)
	before := s.observe()
	if f[0] == "slash" {
		// the staking module slashes validator v0 for an infraction at height 1 (before every unbonding of the history): what it
		// "burns" from the bonded and the not-bonded pool must arrive in the fee collector, total supply unchanged
		var serr interface{}
		s.w.Do(s.c, func(ctx sdk.Context) {
			defer func() { serr = recover() }()
			va, _ := sdk.ValAddressFromBech32(s.vals[0])
			v, ok := s.c.App.StakingKeeper.GetValidator(ctx, va)
			if !ok {
				panic("validator not found")
			}
			cons, err := v.GetConsAddr()
			if err != nil {
				panic(err)
			}
			s.c.App.StakingKeeper.Slash(ctx, cons, 1, v.ConsensusPower(s.c.App.StakingKeeper.PowerReduction(ctx)), sdk.NewDecWithPrec(5, 1))
		})
		s.slashed = true
		after := s.observe()
		if serr != nil {
			add("slash-panics", fmt.Sprint(serr))
			return "slash panicked", "slash", viols
		}
		num := func(x string) *big.Int { v, _ := new(big.Int).SetString(x, 10); return v }
		pools := new(big.Int).Add(num(before.bal["bonded_tokens_pool"]), num(before.bal["not_bonded_tokens_pool"]))
		pools.Sub(pools, new(big.Int).Add(num(after.bal["bonded_tokens_pool"]), num(after.bal["not_bonded_tokens_pool"])))
		gained := new(big.Int).Sub(num(after.bal["collector+distribution"]), num(before.bal["collector+distribution"]))
		class = "slash (nothing to burn)"
		if pools.Sign() > 0 {
			class = "slash burns from the staking pools"
			if num(before.bal["not_bonded_tokens_pool"]).Cmp(num(after.bal["not_bonded_tokens_pool"])) > 0 {
				class = "slash burns from the bonded and the not-bonded pool"
			}
		}
		if before.supply != after.supply {
			add("total-supply-changed", fmt.Sprintf("slash: %s -> %s", before.supply, after.supply))
		}
		if pools.Cmp(gained) != 0 {
			add("burned-coins-not-in-fee-collector", fmt.Sprintf("slash: the staking pools lost %s, fee collector + distribution gained %s", pools, gained))
		}
		return "slashed", class, viols
	}
	if f[0] == "advance" {
		for i := 0; i < 10; i++ {
			s.w.Block(s.c)
		}
		after := s.observe()
		if before.supply != after.supply {
			add("total-supply-changed", fmt.Sprintf("advance: %s -> %s (%s)", before.supply, after.supply, after))
		}
		if p, ok := s.c.App.GovKeeper.GetProposal(s.c.ReadCtx(), s.pid); ok && p.Status != govtypes.StatusVotingPeriod {
			s.votes = map[string]string{} // the tally removes the votes
		}
		// coins "burned" by governance (deposits of a proposal without quorum) end up with the fee collector
		// (which distribution sweeps at the next BeginBlock): gov's loss = collector + distribution gain
		num := func(x string) *big.Int { v, _ := new(big.Int).SetString(x, 10); return v }
		delta := func(k string) *big.Int { return new(big.Int).Sub(num(after.bal[k]), num(before.bal[k])) }
		lost := new(big.Int).Neg(delta("gov"))
		burned := delta("collector+distribution")
		refunded := delta("depositor")
		if lost.Sign() > 0 {
			class = "advance past the voting period (deposit burned)"
			if refunded.Sign() > 0 {
				class = "advance past the voting period (deposit refunded)"
			}
			// what leaves the gov account goes back to the depositor or, when "burned", to the fee collector — it never disappears
			if new(big.Int).Add(burned, refunded).Cmp(lost) != 0 {
				add("burned-coins-not-in-fee-collector", fmt.Sprintf("gov lost %s, fee collector + distribution gained %s, depositor %s", lost, burned, refunded))
			}
			return "advanced", class, append(viols, s.compareModel(add)...)
		}
		return "advanced", "advance past the voting period", append(viols, s.compareModel(add)...)
	}
	path, user := f[0], s.c.Accounts[f[1]]
	// one or two actions (separated by "|")
	var segs [][]string
	cur := []string{}
	for _, x := range f[2:] {
		if x == "|" {
			segs = append(segs, cur)
			cur = []string{}
			continue
		}
		cur = append(cur, x)
	}
	segs = append(segs, cur)
	to, data := s.payload(segs[0])
	var tx []byte
	caller := user.Eth
	switch path {
	case "eoa":
		tx = s.c.EthTx(user, &to, nil, data)
	case "fwd":
		caller = s.fwd
		tx = s.c.EthTx(user, &s.fwd, nil, append(common.LeftPadBytes(to.Bytes(), 32), data...))
	case "fwd2":
		caller = s.fwd2
		_, data2 := s.payload(segs[1])
		cd := append(common.LeftPadBytes(to.Bytes(), 32), common.LeftPadBytes(big.NewInt(int64(len(data))).Bytes(), 32)...)
		cd = append(append(cd, data...), data2...)
		tx = s.c.EthTx(user, &s.fwd2, nil, cd)
	case "fwd3":
		caller = s.fwd3
		to2, data2 := s.payload(segs[1])
		cd := append(common.LeftPadBytes(to.Bytes(), 32), common.LeftPadBytes(big.NewInt(int64(len(data))).Bytes(), 32)...)
		cd = append(cd, common.LeftPadBytes(to2.Bytes(), 32)...)
		cd = append(append(cd, data...), data2...)
		tx = s.c.EthTx(user, &s.fwd3, nil, cd)
	case "fake":
		// the look-alike contract emits exactly the event the system contract would emit for this call by `user`
		topic, evData := s.eventFor(segs[0], user.Eth)
		tx = s.c.EthTx(user, &s.emt, nil, append(topic.Bytes(), evData...))
	}
	inVoting := func() bool {
		p, ok := s.c.App.GovKeeper.GetProposal(s.c.ReadCtx(), s.pid)
		return ok && p.Status == govtypes.StatusVotingPeriod
	}
	votingBefore := inVoting()
	// differential: the same action sent by the same account as the native SDK message, on a copy of the chain
	var native *nativeRun
	if path == "eoa" && len(segs) == 1 {
		native = s.runNative(user, segs[0])
	}
	res := s.w.Block(s.c, tx)[0]
	after := s.observe()
	if before.supply != after.supply {
		add("total-supply-changed", fmt.Sprintf("%s: %s -> %s", op, before.supply, after.supply))
	}
	ended := votingBefore && !inVoting()
	if ended {
		// the voting period ended in this block's EndBlock: the tally removed the votes and the deposit was refunded or
		// burned — effects of the block, not of the transaction; the comparisons below look at the rest
		s.votes = map[string]string{}
		for _, o := range []*obs{&before, &after} {
			o.votes = map[string]string{}
			for _, k := range []string{"gov", "collector+distribution", "depositor", "u1"} {
				delete(o.bal, k)
			}
		}
	}
	action := f[2]
	if native != nil && !ended {
		if native.ok != res.OK() {
			add("contract-path-and-native-message-disagree", fmt.Sprintf("%s: through the system contract ok=%v (%s %s); the same native message from the same account ok=%v (%s)", op, res.OK(), res.VMError, res.Log, native.ok, native.log))
		} else if res.OK() && (fmt.Sprint(native.del) != fmt.Sprint(after.del) || fmt.Sprint(native.votes) != fmt.Sprint(after.votes)) {
			add("contract-path-and-native-message-disagree", fmt.Sprintf("%s: delegations/votes after the contract call %v %v, after the native message %v %v", op, after.del, after.votes, native.del, native.votes))
		}
	}
	if path == "fake" {
		// nothing native may happen
		b, a := before, after
		b.slot, a.slot = "", ""
		if b.String() != a.String() {
			add("look-alike-event-triggered-a-native-action", fmt.Sprintf("%s: before {%s} after {%s}", op, before, after))
		}
		return "fake", "look-alike event ignored", append(viols, s.compareModel(add)...)
	}
	if !res.OK() {
		class = path + " " + action + " failed"
		// atomic: nothing changed, including the forwarder's own storage write
		if before.String() != after.String() {
			add("failed-native-action-left-state-behind/"+path, fmt.Sprintf("%s failed (%s %s) but: before {%s} after {%s}", op, res.VMError, res.Log, before, after))
		}
		return "failed", class, append(viols, s.compareModel(add)...)
	}
	class = path + " " + action + " ok"
	// success: exactly the requested native action for the caller
	key := func(i int) string { return fmt.Sprintf("%s/%d", caller.Hex(), i) }
	vi := func(a string) int {
		if a == "v1" {
			return 1
		}
		return 0
	}
	amt := func(x string) *big.Int { v, _ := new(big.Int).SetString(x, 10); return v }
	bump := func(k string, d *big.Int, sign int64) {
		if s.del[k] == nil {
			s.del[k] = new(big.Int)
		}
		s.del[k].Add(s.del[k], new(big.Int).Mul(d, big.NewInt(sign)))
	}
	for _, g := range segs {
		switch g[0] {
		case "delegate":
			bump(key(vi(g[1])), amt(g[2]), 1)
		case "undelegate":
			bump(key(vi(g[1])), amt(g[2]), -1)
		case "redelegate":
			bump(key(vi(g[1])), amt(g[3]), -1)
			bump(key(vi(g[2])), amt(g[3]), 1)
		case "withdraw":
		case "vote":
			s.votes[caller.Hex()] = fmt.Sprintf("%s:1.000000000000000000", g[2])
		case "wvote":
			var parts []string
			for _, p := range strings.Split(g[2], ",") {
				var o, w int64
				fmt.Sscanf(p, "%d:%d", &o, &w)
				parts = append(parts, fmt.Sprintf("%d:%s", o, sdk.NewDecWithPrec(w, 2).String()))
			}
			s.votes[caller.Hex()] = strings.Join(parts, ",")
		}
	}
	if path == "fwd" && after.slot == before.slot {
		add("forwarder-state-lost-on-success", op)
	}
	if ended {
		s.votes = map[string]string{} // a vote cast in the very block whose EndBlock tallies is removed with the others
	}
	return "ok", class, append(viols, s.compareModel(add)...)
}

type nativeRun struct {
	ok    bool
	log   string
	del   map[string]string
	votes map[string]string
}

// runNative delivers the native SDK message equivalent to one action, signed by the same account, in the next block of
// a copy of the chain, and observes the delegations and votes afterwards.
func (s *Sys) runNative(user world.Account, g []string) *nativeRun {
	num := func(x string) sdk.Int { v, _ := new(big.Int).SetString(x, 10); return sdk.NewIntFromBigInt(v) }
	del := user.Acc.String()
	bond := s.c.App.StakingKeeper.BondDenom(s.c.ReadCtx())
	var msg sdk.Msg
	switch g[0] {
	case "delegate":
		msg = &stakingtypes.MsgDelegate{DelegatorAddress: del, ValidatorAddress: s.valArg(g[1]), Amount: sdk.Coin{Denom: bond, Amount: num(g[2])}}
	case "undelegate":
		msg = &stakingtypes.MsgUndelegate{DelegatorAddress: del, ValidatorAddress: s.valArg(g[1]), Amount: sdk.Coin{Denom: bond, Amount: num(g[2])}}
	case "redelegate":
		msg = &stakingtypes.MsgBeginRedelegate{DelegatorAddress: del, ValidatorSrcAddress: s.valArg(g[1]), ValidatorDstAddress: s.valArg(g[2]), Amount: sdk.Coin{Denom: bond, Amount: num(g[3])}}
	case "withdraw":
		msg = &distrtypes.MsgWithdrawDelegatorReward{DelegatorAddress: del, ValidatorAddress: s.valArg(g[1])}
	case "vote":
		msg = &govtypes.MsgVote{ProposalId: num(g[1]).Uint64(), Voter: del, Option: govtypes.VoteOption(num(g[2]).Uint64())}
	case "wvote":
		var opts []govtypes.WeightedVoteOption
		for _, p := range strings.Split(g[2], ",") {
			var o, w int64
			fmt.Sscanf(p, "%d:%d", &o, &w)
			opts = append(opts, govtypes.WeightedVoteOption{Option: govtypes.VoteOption(o), Weight: sdk.NewDecWithPrec(w, 2)})
		}
		msg = &govtypes.MsgVoteWeighted{ProposalId: num(g[1]).Uint64(), Voter: del, Options: opts}
	default:
		return nil
	}
	alt := s.c.Clone()
	out := &nativeRun{}
	func() {
		defer func() {
			if rec := recover(); rec != nil {
				out.ok, out.log = false, fmt.Sprint("panic: ", rec)
			}
		}()
		r := alt.Block(s.w.Now.Add(world.BlockStep), alt.CosmosTx(user, msg))[0]
		out.ok, out.log = r.OK(), r.Log
	}()
	if strings.HasPrefix(out.log, "panic: ") {
		return nil // block processing of the copy panicked: the main run reports it
	}
	orig := s.c
	s.c = alt
	o := s.observe()
	s.c = orig
	out.del, out.votes = o.del, o.votes
	return out
}

// eventFor builds the log (topic, data) the system contract would emit for the action called by sender.
func (s *Sys) eventFor(f []string, sender common.Address) (common.Hash, []byte) {
	num := func(x string) *big.Int { v, _ := new(big.Int).SetString(x, 10); return v }
	var ev abi.Event
	var data []byte
	var err error
	switch f[0] {
	case "delegate":
		ev = stakingABI.Events["Delegated"]
		data, err = ev.Inputs.Pack(sender, s.valArg(f[1]), num(f[2]))
	case "undelegate":
		ev = stakingABI.Events["Undelegated"]
		data, err = ev.Inputs.Pack(sender, s.valArg(f[1]), num(f[2]))
	case "vote":
		ev = govABI.Events["Voted"]
		data, err = ev.Inputs.Pack(sender, num(f[1]).Uint64(), uint32(num(f[2]).Uint64()))
	default:
		panic("no look-alike for " + f[0])
	}
	if err != nil {
		panic(err)
	}
	return ev.ID, data
}

// compareModel: delegations and votes of every actor equal the reference model.
func (s *Sys) compareModel(add func(sig, d string)) []bfs.Viol {
	var viols []bfs.Viol
	o := s.observe()
	for n, a := range s.actors() {
		for i := range s.vals {
			k := fmt.Sprintf("%s/%d", a.Hex(), i)
			want := "0"
			if s.del[k] != nil {
				want = s.del[k].String()
			}
			got := o.del[k]
			if got == "" {
				got = "0"
			}
			if got != want {
				viols = append(viols, bfs.Viol{Sig: "C17:delegation-differs-from-requested-actions", Detail: fmt.Sprintf("%s (%s) validator %d: chain says %s, the calls made so far say %s; model {%s}", n, a.Hex(), i, got, want, s.modelString())})
			}
		}
		if got, want := o.votes[a.Hex()], s.votes[a.Hex()]; got != want {
			viols = append(viols, bfs.Viol{Sig: "C17:vote-differs-from-requested-actions", Detail: fmt.Sprintf("%s: chain says %q, calls say %q", n, got, want)})
		}
	}
	return viols
}

func (s *Sys) Key() string {
	if s.halted {
		return "halted"
	}
	o := s.observe()
	return o.String()
}

func (s *Sys) Check() []bfs.Viol { return nil }
