// Package c18 decides C18: client lifecycle (create / upgrade / toggle / update)
// installs a usable client or changes nothing — explicit-state search over
// lifecycle sequences for all ordered pairs of the four client types on the
// real client keeper, through the real proposal handler and message server.
package c18

import (
	"bytes"
	"fmt"
	"sort"
	"strings"
	"time"

	ethtypes "github.com/ethereum/go-ethereum/core/types"

	sdk "github.com/cosmos/cosmos-sdk/types"
	govtypes "github.com/cosmos/cosmos-sdk/x/gov/types"

	bsctypes "github.com/teleport-network/teleport/x/xibc/clients/light-clients/bsc/types"
	ethclient "github.com/teleport-network/teleport/x/xibc/clients/light-clients/eth/types"
	xibctmtypes "github.com/teleport-network/teleport/x/xibc/clients/light-clients/tendermint/types"
	tsstypes "github.com/teleport-network/teleport/x/xibc/clients/tss-client/types"
	xibcclient "github.com/teleport-network/teleport/x/xibc/core/client"
	clienttypes "github.com/teleport-network/teleport/x/xibc/core/client/types"
	commitmenttypes "github.com/teleport-network/teleport/x/xibc/core/commitment/types"
	"github.com/teleport-network/teleport/x/xibc/exported"

	"verif/internal/bfs"
	"verif/internal/checks/c07"
	"verif/internal/checks/c08"
	"verif/internal/checks/c09"
	"verif/internal/checks/c10"
	"verif/internal/world"
)

const Name = "cp-chain"

var types = []string{"tm", "bsc", "eth", "tss"}

// kit knows how to install, extend and probe a client of one type.
type kit struct {
	// install returns the (client state, consensus state) of variant v (0 = first install, 1 = a later one)
	install func(v int) (exported.ClientState, exported.ConsensusState)
	// next returns a valid header extending the stored client state
	next func(cs exported.ClientState) exported.Header
	// nextCtx (optional) may consult the client store of the given context (BSC: the recent signers)
	nextCtx func(ctx sdk.Context, cs exported.ClientState) exported.Header
	// proof returns (height, proof, value) of a genuine statement provable at the installed height of variant v
	proof func(v int) (exported.Height, []byte, []byte)
	// delayByTime: the delay is wall time (tendermint); otherwise confirmation blocks (one update)
	delayByTime bool
	noDelay     bool
}

type fixtures struct {
	cp      c07.CP
	h       *c07.Host
	evmRoot []byte
	evmPrf  []byte
	evmVal  []byte
	ethGen  [2]*ethtypes.Header
	kits    map[string]kit
	tssAcc  world.Account
	relayer world.Account
}

var fx *fixtures

func getFx() *fixtures {
	if fx != nil {
		return fx
	}
	cp, h := c07.GetCP()
	f := &fixtures{cp: cp, h: h, tssAcc: world.NewAccount("tss-account"), relayer: world.NewAccount("relayer")}
	root, prf, val := c08.Fixture()
	f.evmRoot, f.evmPrf, f.evmVal = root.Bytes(), prf, val
	tmHeights := [2]int64{5, 8}
	f.kits = map[string]kit{}
	f.kits["tm"] = kit{
		install: func(v int) (exported.ClientState, exported.ConsensusState) {
			cs := xibctmtypes.NewClientState(c07.ChainID, xibctmtypes.DefaultTrustLevel, c07.Period, 2*c07.Period, c07.Drift, clienttypes.NewHeight(1, uint64(tmHeights[v])),
				commitmenttypes.GetSDKSpecs(), commitmenttypes.MerklePrefix{KeyPrefix: []byte("xibc")}, uint64(10*time.Second))
			return cs, cp.Cons(tmHeights[v])
		},
		next: func(cs exported.ClientState) exported.Header {
			l := cs.GetLatestHeight().GetRevisionHeight()
			return cp.Header(int64(l)+1, l)
		},
		proof: func(v int) (exported.Height, []byte, []byte) {
			p, val := cp.Proof(tmHeights[v])
			return clienttypes.NewHeight(1, uint64(tmHeights[v])), p, val
		},
		delayByTime: true,
	}
	// BSC: three validators (a validator may not seal two blocks in a row), sealers chosen from the store's recent signers
	bscSet := []int{0, 1, 2}
	bscGen := func(v int) *bsctypes.Header {
		list := bscSet
		if v == 1 {
			list = []int{0, 1, 3} // the later install announces a changed validator set: it (not the current set) must become the pending one
		}
		return c09.Build(c09.Spec{Number: uint64(400 + 2*v), Signer: 0, Coinbase: -1, Diff: 1, List: list, Root: f.evmRoot})
	}
	bscNext := func(ctx sdk.Context, cs exported.ClientState) exported.Header {
		b := cs.(*bsctypes.ClientState)
		parent := b.Header
		n := parent.Height.RevisionHeight + 1
		recent := map[int]bool{}
		if signers, err := bsctypes.GetRecentSigners(h.C.App.XIBCKeeper.ClientKeeper.ClientStore(ctx, Name)); err == nil {
			for _, sg := range signers {
				if sg.Height.RevisionHeight+uint64(len(b.Validators)/2) >= n {
					recent[c09.IndexOf(sg.Validator)] = true
				}
			}
		}
		var cur []int
		for _, a := range b.Validators {
			cur = append(cur, c09.IndexOf(a))
		}
		var list []int
		if n%b.Epoch == 0 {
			list = cur
		}
		for pos, idx := range cur {
			if idx < 0 || recent[idx] {
				continue
			}
			diff := int64(1)
			if uint64(pos) == n%uint64(len(cur)) {
				diff = 2
			}
			return c09.Build(c09.Spec{Parent: &parent, Number: n, Signer: idx, Coinbase: -1, Diff: diff, List: list})
		}
		return nil
	}
	f.kits["bsc"] = kit{
		install: func(v int) (exported.ClientState, exported.ConsensusState) {
			g := bscGen(v)
			cs := bsctypes.NewClientState(*g, c09.ChainID, 2, 3, c09.SortedAddrs(bscSet), c08.ContractAddress(), 1_000_000_000)
			return cs, &bsctypes.ConsensusState{Timestamp: g.Time, Height: g.Height, Root: g.Root}
		},
		next:    func(cs exported.ClientState) exported.Header { return bscNext(h.Ctx(cp.TimeOf(7)), cs) },
		nextCtx: bscNext,
		proof: func(v int) (exported.Height, []byte, []byte) {
			return clienttypes.NewHeight(0, uint64(400+2*v)), f.evmPrf, f.evmVal
		},
	}
	for v := 0; v < 2; v++ {
		f.ethGen[v] = c10.EthHeader(nil, fmt.Sprintf("G%d", v), f.evmRoot)
		f.ethGen[v].Number.SetUint64(uint64(100 + 10*v))
		f.ethGen[v].Time = uint64(cp.TimeOf(2).Unix()) + uint64(v) // in the past of the search's clock
	}
	f.kits["eth"] = kit{
		install: func(v int) (exported.ClientState, exported.ConsensusState) {
			g := c10.ToProto(f.ethGen[v])
			cs := &ethclient.ClientState{Header: *g, ChainId: 4, ContractAddress: c08.ContractAddress(), TrustingPeriod: 10_000_000_000, BlockDelay: 1}
			return cs, &ethclient.ConsensusState{Timestamp: g.Time, Height: g.Height, Root: g.Root}
		},
		next: func(cs exported.ClientState) exported.Header {
			e := cs.(*ethclient.ClientState)
			// rebuild the go-ethereum view of the stored head to derive a rule-abiding child
			var parent *ethtypes.Header
			for v := 0; v < 2; v++ {
				if f.ethGen[v].Number.Uint64() == e.Header.Height.RevisionHeight {
					parent = f.ethGen[v]
				}
			}
			if parent == nil {
				return nil // only one update after an install is needed by the oracle
			}
			return c10.ToProto(c10.EthHeader(parent, "child", nil))
		},
		proof: func(v int) (exported.Height, []byte, []byte) {
			return clienttypes.NewHeight(0, uint64(100+10*v)), f.evmPrf, f.evmVal
		},
	}
	f.kits["tss"] = kit{
		install: func(v int) (exported.ClientState, exported.ConsensusState) {
			return &tsstypes.ClientState{TssAddress: f.tssAcc.Acc.String(), Pubkey: []byte{1, byte(v)}, PartPubkeys: [][]byte{{2}}, Threshold: 1}, &tsstypes.ConsensusState{}
		},
		next: func(cs exported.ClientState) exported.Header {
			return &tsstypes.Header{TssAddress: f.tssAcc.Acc.String(), Pubkey: []byte{9}, PartPubkeys: [][]byte{{8}}, Threshold: 1}
		},
		proof: func(v int) (exported.Height, []byte, []byte) {
			return clienttypes.NewHeight(0, 1), []byte(f.tssAcc.Acc.String()), []byte("any")
		},
		noDelay: true,
	}
	fx = f
	return f
}

// Bounds of the search.
type Bounds struct{ Depth int }

type sys struct {
	f     *fixtures
	ctx   sdk.Context
	now   time.Time
	typ   string // current client type ("" = none)
	inst  int    // variant installed
	waits int    // number of "wait" operations so far (bounded)
	other string // digest of the bystander client\'s store
}

func New(b Bounds) bfs.System {
	f := getFx()
	s := &sys{f: f}
	// a moment at which every tendermint header of the fixture is in the past and nothing is expired
	s.now = f.cp.TimeOf(9).Add(time.Second)
	s.ctx = f.h.Ctx(s.now)
	k := f.h.C.App.XIBCKeeper.ClientKeeper
	// (the authorised accounts relay for other chains as well: authorisation must not depend on being registered for one chain only)
	k.RegisterRelayers(s.ctx, f.relayer.Acc.String(), []string{"another-chain", Name, otherName}, []string{"w", "x", "v"})
	k.RegisterRelayers(s.ctx, f.tssAcc.Acc.String(), []string{Name, "another-chain"}, []string{"y", "z"})
	// a bystander: another chain's client whose name merely starts with the same characters; nothing done to cp-chain may touch it
	ocs, ocons := f.kits["tm"].install(0)
	if err := k.CreateClient(s.ctx, Name+"-2", ocs, ocons); err != nil {
		panic(err)
	}
	s.other = s.dumpOther()
	return s
}

const otherName = Name + "-2"

func (s *sys) dumpOther() string {
	st := s.f.h.C.App.XIBCKeeper.ClientKeeper.ClientStore(s.ctx, otherName)
	it := st.Iterator(nil, nil)
	defer it.Close()
	var ks []string
	for ; it.Valid(); it.Next() {
		ks = append(ks, fmt.Sprintf("%x=%x", it.Key(), it.Value()))
	}
	return fmt.Sprintf("%x", world.DigestStrings(ks))
}

func (s *sys) Clone() bfs.System {
	n := *s
	n.ctx = c07.Fork(s.ctx, s.now)
	return &n
}

// badNames are malformed chain names: too short, too long, empty, with a path separator, with characters outside the
// allowed set, and names that are well formed only once surrounding blanks are trimmed (the tracked client's own name
// among them: the padded name is a different store key, so the used-name check does not catch it).
var badNames = []string{"x", "", strings.Repeat("n", 65), "cp/chain", "cp chain", " " + Name, Name + " ", Name + "\n", "\tnew-chain", "new-chain "}

func (s *sys) Ops() []string {
	var out []string
	for _, t := range types {
		out = append(out, "create "+t, "create-wrong-consensus "+t, "upgrade "+t, "toggle "+t)
	}
	for i := range badNames {
		out = append(out, fmt.Sprintf("create-bad-name tm %d", i))
	}
	out = append(out, "upgrade-bsc-off-epoch", "update", "update-outsider", "update-backfill")
	if s.waits < 2 {
		out = append(out, "wait") // the local clock passes the delay period (an install at an already tracked height must restart the delay)
	}
	return out
}

func (s *sys) dump(ctx sdk.Context) map[string]string {
	out := map[string]string{}
	st := s.f.h.C.App.XIBCKeeper.ClientKeeper.ClientStore(ctx, Name)
	it := st.Iterator(nil, nil)
	defer it.Close()
	for ; it.Valid(); it.Next() {
		out[string(it.Key())] = string(it.Value())
	}
	return out
}

func (s *sys) handler() govtypes.Handler {
	return xibcclient.NewClientProposalHandler(s.f.h.C.App.XIBCKeeper.ClientKeeper)
}

func otherType(t string) string {
	for i, x := range types {
		if x == t {
			return types[(i+1)%len(types)]
		}
	}
	return "tm"
}

func (s *sys) Apply(op string) (obs, class string, viols []bfs.Viol) {
	obs, class, viols = s.apply(op)
	if d := s.dumpOther(); d != s.other {
		viols = append(viols, bfs.Viol{Sig: "C18:lifecycle-action-touched-another-client", Detail: fmt.Sprintf("%s (on %q) changed the store of client %q", op, Name, otherName)})
		s.other = d
	}
	return
}

func (s *sys) apply(op string) (obs, class string, viols []bfs.Viol) {
	add := func(sig, d string) { viols = append(viols, bfs.Viol{Sig: "C18:" + sig, Detail: d}) }
	f := strings.Fields(op)
	k := s.f.h.C.App.XIBCKeeper.ClientKeeper
	before := s.dump(s.ctx)
	switch f[0] {
	case "create", "create-wrong-consensus", "create-bad-name", "upgrade", "toggle", "upgrade-bsc-off-epoch":
		t := "bsc"
		if len(f) > 1 {
			t = f[1]
		}
		variant := 0
		if f[0] != "create" && f[0] != "create-wrong-consensus" && f[0] != "create-bad-name" {
			variant = 1
		}
		cs, cons := s.f.kits[t].install(variant)
		name := Name
		shouldFail := ""
		switch f[0] {
		case "create":
			if s.typ != "" {
				shouldFail = "the chain name is already in use"
			}
		case "create-wrong-consensus":
			_, cons = s.f.kits[otherType(t)].install(0)
			shouldFail = "the consensus state is of another client type"
			if s.typ != "" {
				shouldFail = "the chain name is already in use"
			}
		case "create-bad-name":
			var i int
			fmt.Sscan(f[2], &i)
			name = badNames[i]
			shouldFail = "the chain name is malformed"
		case "upgrade":
			if s.typ == "" {
				shouldFail = "no client to upgrade"
			} else if s.typ != t {
				shouldFail = "an upgrade must keep the client type"
			}
		case "upgrade-bsc-off-epoch":
			b := cs.(*bsctypes.ClientState)
			b.Header.Height.RevisionHeight++
			shouldFail = "BSC client state not on an epoch height"
		case "toggle":
			if s.typ == "" {
				shouldFail = "no client to toggle"
			} else if s.typ == t {
				shouldFail = "a toggle must change the client type"
			}
		}
		var content govtypes.Content
		var err error
		switch {
		case strings.HasPrefix(f[0], "create"):
			content, err = clienttypes.NewCreateClientProposal("t", "d", name, cs, cons)
		case strings.HasPrefix(f[0], "upgrade"):
			content, err = clienttypes.NewUpgradeClientProposal("t", "d", name, cs, cons)
		default:
			content, err = clienttypes.NewToggleClientProposal("t", "d", name, cs, cons)
		}
		if err != nil {
			panic(err)
		}
		if verr := content.ValidateBasic(); verr != nil {
			if shouldFail == "" {
				add("well-formed-proposal-refused-by-stateless-validation/"+f[0]+"/"+t, verr.Error())
			}
			return "invalid-basic", f[0] + " refused stateless", viols
		}
		cctx, write := c07.ForkW(s.ctx, s.now) // gov executes the handler on a cache context
		var herr error
		func() {
			defer func() {
				if r := recover(); r != nil {
					herr = fmt.Errorf("panic: %v", r)
				}
			}()
			herr = s.handler()(cctx, content)
		}()
		if herr != nil {
			class = f[0] + " failed"
			if shouldFail == "" {
				class = f[0] + " of a valid proposal failed (informational)"
			}
			// nothing is written: the previous client is untouched
			if d := world.DiffStores(before, s.dump(s.ctx)); len(d) > 0 {
				add("failed-lifecycle-action-changed-client", fmt.Sprintf("%s: %v", op, d))
			}
			return "failed: " + firstWords(herr.Error()), class, viols
		}
		write()
		class = f[0] + " " + s.typ + "->" + t + " succeeded"
		if shouldFail != "" {
			add("invalid-lifecycle-action-succeeded/"+strings.ReplaceAll(shouldFail, " ", "-"), fmt.Sprintf("%s succeeded although %s (previous type %q)", op, shouldFail, s.typ))
		}
		if name != Name {
			return "ok", class, viols
		}
		s.typ, s.inst = t, variant
		// (a) stored client and consensus state are exactly the proposal's
		got, ok := k.GetClientState(s.ctx, Name)
		if !ok || !bytes.Equal(k.MustMarshalClientState(got), k.MustMarshalClientState(cs)) {
			add("stored-client-state-differs-from-proposal/"+t, op)
		}
		if t != "tss" {
			gc, ok := k.GetClientConsensusState(s.ctx, Name, cs.GetLatestHeight())
			if !ok || !bytes.Equal(k.MustMarshalConsensusState(gc), k.MustMarshalConsensusState(cons)) {
				add("stored-consensus-state-differs-from-proposal/"+t, fmt.Sprintf("%s: found=%v", op, ok))
			}
		}
		// (b) active
		if st := got.Status(s.ctx, k.ClientStore(s.ctx, Name), s.f.h.C.App.AppCodec()); st != exported.Active {
			add("installed-client-not-active/"+t, fmt.Sprintf("%s: status %s", op, st))
		}
		// (b2) initialised the way the type requires: everything a fresh creation of the same proposal writes is there
		s.probeInit(op, f[0], t, cs, cons, add)
		// (c) proofs at the installed height verify once the delay has passed and not before
		s.probeProof(op, f[0], t, variant, add)
		// (d) an update with a valid header from the authorised account succeeds
		s.probeUpdate(op, f[0], t, add)
		return "ok", class, viols
	case "update-backfill":
		// tendermint only: a valid header for a height below the latest one (skipped by an upgrade), trusting an older stored height
		if s.typ != "tm" {
			return "n/a", "back-fill: not a tendermint client", nil
		}
		cs, _ := k.GetClientState(s.ctx, Name)
		latest := cs.GetLatestHeight().GetRevisionHeight()
		stored := map[uint64]bool{}
		k.IterateConsensusStates(s.ctx, func(name string, c clienttypes.ConsensusStateWithHeight) bool {
			if name == Name {
				stored[c.Height.RevisionHeight] = true
			}
			return false
		})
		h, trusted := latest-1, uint64(0)
		for t := h - 1; t >= 2; t-- {
			if stored[t] {
				trusted = t
				break
			}
		}
		if stored[h] || trusted == 0 || h < 2 {
			return "no header", "back-fill: no skipped height with an older trusted height", nil
		}
		pre := s.verify(c07.Fork(s.ctx, s.now), "tm", s.inst)
		if err := s.msgUpdate(s.ctx, s.f.cp.Header(int64(h), trusted), s.f.relayer, true); err != nil {
			add("valid-update-from-authorised-account-failed/tm-backfill", fmt.Sprintf("back-fill of %d trusting %d: %v", h, trusted, err))
			if d := world.DiffStores(before, s.dump(s.ctx)); len(d) > 0 {
				add("failed-update-changed-client", fmt.Sprintf("%s: %v", op, d))
			}
			return "failed", "back-fill failed", viols
		}
		// the installed height is not disturbed: a proof that was honoured before the back-fill still is
		if post := s.verify(c07.Fork(s.ctx, s.now), "tm", s.inst); pre == nil && post != nil {
			add("proof-at-installed-height-refused-after-back-fill", fmt.Sprintf("back-fill of %d trusting %d: %v", h, trusted, post))
		}
		// and the back-filled height becomes provable once its own delay has passed
		if int64(h)-1 >= s.f.cp.CommitAt() {
			later := c07.Fork(s.ctx, s.now).WithBlockTime(s.now.Add(11 * time.Second))
			proof, val := s.f.cp.Proof(int64(h))
			cs2, _ := k.GetClientState(later, Name)
			if err := cs2.VerifyPacketCommitment(later, k.ClientStore(later, Name), s.f.h.C.App.AppCodec(), clienttypes.NewHeight(1, h), proof, "cp-1", "teleport_9000-10", 1, val); err != nil {
				add("genuine-proof-at-back-filled-height-refused-after-the-delay", fmt.Sprintf("back-fill of %d: %v", h, err))
			}
		}
		return "ok", "back-fill of a tendermint client succeeded", viols
	case "wait":
		s.waits++
		s.now = s.now.Add(20 * time.Second)
		s.ctx = s.ctx.WithBlockTime(s.now)
		return "waited", "clock advanced beyond the delay period", nil
	case "update", "update-outsider":
		if s.typ == "" {
			return "no client", "update without client", nil
		}
		cs, _ := k.GetClientState(s.ctx, Name)
		hdr := s.nextHeader(s.ctx, s.typ, cs)
		if hdr == nil {
			return "no header", "update: no further header in the fixture", nil
		}
		// the local clock follows the counterparty's (a header from the future is legitimately refused)
		if th, ok := hdr.(interface{ GetTime() time.Time }); ok && !th.GetTime().Before(s.now) {
			s.now = th.GetTime().Add(time.Second)
			s.ctx = s.ctx.WithBlockTime(s.now)
		}
		signer := s.f.relayer
		if s.typ == "tss" {
			signer = s.f.tssAcc
		}
		if f[0] == "update-outsider" {
			signer = world.NewAccount("outsider")
		}
		err := s.msgUpdate(s.ctx, hdr, signer, true)
		if err != nil {
			class = "update failed"
			if f[0] == "update-outsider" {
				class = "update from an unregistered account refused"
			} else {
				add("valid-update-from-authorised-account-failed/"+s.typ, fmt.Sprintf("%s on a %s client: %v", op, s.typ, err))
			}
			if d := world.DiffStores(before, s.dump(s.ctx)); len(d) > 0 {
				add("failed-update-changed-client", fmt.Sprintf("%s: %v", op, d))
			}
			return "failed", class, viols
		}
		if f[0] == "update-outsider" {
			add("update-from-unregistered-account-accepted", op)
		}
		return "ok", "update of a " + s.typ + " client succeeded", viols
	}
	panic("bad op " + op)
}

func firstWords(s string) string {
	f := strings.Fields(s)
	if len(f) > 8 {
		f = f[:8]
	}
	return strings.Join(f, " ")
}

// msgUpdate runs MsgUpdateClient through the real message server on a cache context (a transaction).
func (s *sys) msgUpdate(ctx sdk.Context, hdr exported.Header, signer world.Account, commit bool) (err error) {
	msg, e := clienttypes.NewMsgUpdateClient(Name, hdr, signer.Acc)
	if e != nil {
		return e
	}
	if e := msg.ValidateBasic(); e != nil {
		return e
	}
	// the message travels as transaction bytes: what the message server sees is what the application's codec decodes
	{
		cdc := s.f.h.C.App.AppCodec()
		bz, e := cdc.Marshal(msg)
		if e != nil {
			return fmt.Errorf("message does not encode: %w", e)
		}
		var decoded clienttypes.MsgUpdateClient
		if e := cdc.Unmarshal(bz, &decoded); e != nil {
			return fmt.Errorf("message does not decode: %w", e)
		}
		if e := decoded.UnpackInterfaces(s.f.h.C.App.InterfaceRegistry()); e != nil {
			return fmt.Errorf("message does not decode: %w", e)
		}
		msg = &decoded
	}
	cctx, write := c07.ForkW(ctx, ctx.BlockTime())
	defer func() {
		if r := recover(); r != nil {
			err = fmt.Errorf("panic (recovered by the transaction runner): %v", r)
		}
	}()
	if _, e := s.f.h.C.App.XIBCKeeper.UpdateClient(sdk.WrapSDKContext(cctx), msg); e != nil {
		return e
	}
	if commit {
		write()
	}
	return nil
}

func (s *sys) verify(ctx sdk.Context, t string, variant int) error {
	k := s.f.h.C.App.XIBCKeeper.ClientKeeper
	cs, _ := k.GetClientState(ctx, Name)
	h, proof, val := s.f.kits[t].proof(variant)
	src, dst := "cp-1", "teleport_9000-10"
	if t == "bsc" || t == "eth" {
		src, dst = c08.Src, c08.Dst
	}
	return cs.VerifyPacketCommitment(ctx, k.ClientStore(ctx, Name), s.f.h.C.App.AppCodec(), h, proof, src, dst, 1, val)
}

func (s *sys) probeProof(op, action, t string, variant int, add func(sig, d string)) {
	kt := s.f.kits[t]
	now := c07.Fork(s.ctx, s.now)
	errNow := s.verify(now, t, variant)
	if kt.noDelay {
		if errNow != nil {
			add("genuine-proof-at-installed-height-refused/"+action+"/"+t, fmt.Sprintf("%s: %v", op, errNow))
		}
		return
	}
	if errNow == nil {
		add("proof-honoured-before-the-delay/"+action+"/"+t, op)
	}
	later := c07.Fork(s.ctx, s.now)
	if kt.delayByTime {
		later = later.WithBlockTime(s.now.Add(11 * time.Second))
	} else {
		// as many valid updates as the client type asks confirmation blocks for
		cs0, _ := s.f.h.C.App.XIBCKeeper.ClientKeeper.GetClientState(later, Name)
		need := cs0.GetDelayBlock()
		if need == 0 {
			need = 1
		}
		for i := uint64(0); i < need; i++ {
			cs, _ := s.f.h.C.App.XIBCKeeper.ClientKeeper.GetClientState(later, Name)
			hdr := s.nextHeader(later, t, cs)
			if hdr == nil {
				return
			}
			if err := s.msgUpdate(later, hdr, s.f.relayer, true); err != nil {
				return // reported by probeUpdate
			}
		}
	}
	if err := s.verify(later, t, variant); err != nil {
		add("genuine-proof-at-installed-height-refused-after-the-delay/"+action+"/"+t, fmt.Sprintf("%s: %v", op, err))
	}
}

// probeInit: differential oracle — on a fork whose client store is wiped, the same client is created afresh at the same
// block time; every entry that creation writes (consensus state, processed time/height, iteration keys, header index,
// root index, signer and pending-validator records) must be present with the same value after the upgrade or toggle.
func (s *sys) probeInit(op, action, t string, cs exported.ClientState, cons exported.ConsensusState, add func(sig, d string)) {
	if action == "create" {
		return
	}
	k := s.f.h.C.App.XIBCKeeper.ClientKeeper
	fresh := c07.Fork(s.ctx, s.now)
	st := k.ClientStore(fresh, Name)
	for key := range s.dump(fresh) {
		st.Delete([]byte(key))
	}
	if err := k.CreateClient(fresh, Name, cs, cons); err != nil {
		return // the proposal cannot be created afresh (not comparable)
	}
	have := s.dump(s.ctx)
	var miss []string
	for key, v := range s.dump(fresh) {
		if hv, ok := have[key]; !ok {
			miss = append(miss, fmt.Sprintf("%q missing", key))
		} else if hv != v {
			miss = append(miss, fmt.Sprintf("%q = %x, fresh creation writes %x", key, hv, v))
		}
	}
	// the other direction for records that describe the client as a whole rather than a stored height: an upgrade replaces
	// them, so nothing but what a fresh creation writes may remain (BSC: recent signers, pending validators)
	freshDump := s.dump(fresh)
	for key := range have {
		if strings.HasPrefix(key, "recentSingers") || strings.HasPrefix(key, "pendingValidators") {
			if _, ok := freshDump[key]; !ok {
				miss = append(miss, fmt.Sprintf("%q left over from the replaced client", key))
			}
		}
	}
	if len(miss) > 0 {
		sort.Strings(miss)
		add("installed-client-not-initialised-like-a-fresh-one/"+action+"/"+t, fmt.Sprintf("%s: %s", op, strings.Join(miss, "; ")))
	}
}

// nextHeader asks the kit for a valid header extending the stored client (store-aware where the kit supports it).
func (s *sys) nextHeader(ctx sdk.Context, t string, cs exported.ClientState) exported.Header {
	kt := s.f.kits[t]
	if kt.nextCtx != nil {
		return kt.nextCtx(ctx, cs)
	}
	return kt.next(cs)
}

func (s *sys) probeUpdate(op, action, t string, add func(sig, d string)) {
	fork := c07.Fork(s.ctx, s.now)
	cs, _ := s.f.h.C.App.XIBCKeeper.ClientKeeper.GetClientState(fork, Name)
	hdr := s.nextHeader(fork, t, cs)
	if hdr == nil {
		return
	}
	signer := s.f.relayer
	if t == "tss" {
		signer = s.f.tssAcc
	}
	if err := s.msgUpdate(fork, hdr, signer, false); err != nil {
		add("valid-update-after-"+action+"-failed/"+t, fmt.Sprintf("after %s a valid %s header from the authorised account is refused: %v", op, t, err))
	}
}

func (s *sys) Key() string {
	d := s.dump(s.ctx)
	var ks []string
	for k, v := range d {
		ks = append(ks, fmt.Sprintf("%x=%x", k, v))
	}
	sort.Strings(ks)
	return fmt.Sprintf("%s/%d/%d/%d/%x", s.typ, s.inst, s.waits, s.now.Unix(), world.DigestStrings(ks))
}

func (s *sys) Check() []bfs.Viol { return nil }
