// Package c19 decides C19: canonical loss-free packet encoding and injective,
// parseable store keys — exhaustive bounded enumeration of field values.
package c19

import (
	"bytes"
	"crypto/sha256"
	"fmt"
	"reflect"
	"strings"

	packettypes "github.com/teleport-network/teleport/x/xibc/core/packet/types"

	"verif/internal/ev"
)

var strAlphabet = []string{"", "a", strings.Repeat("b", 31), strings.Repeat("c", 32), strings.Repeat("d", 33), "héllo wörld ✓ 日本", `quote"back\slash`, "ctl\x01\n\t\x7f", "<tag>&amp;", "line sep ", "0x00000000000000000000000000000000000000aa", "\u0000nul"}
var bytesAlphabet = [][]byte{nil, {}, {0}, bytes.Repeat([]byte{1}, 31), bytes.Repeat([]byte{2}, 32), bytes.Repeat([]byte{3}, 33), bytes.Repeat([]byte{0xff}, 40), {0, 0, 1}}
var u64Alphabet = []uint64{0, 1, 1<<53 - 1, 1 << 53, 1<<53 + 1, 1 << 63, 1<<64 - 1}

// codec abstracts one encodable type.
type codec struct {
	name   string
	fresh  func() interface{}                 // pointer to a default value
	encode func(v interface{}) ([]byte, error) // ABIPack
	decode func(bz []byte) (interface{}, error)
}

var codecs = []codec{
	{"Packet", func() interface{} {
		return &packettypes.Packet{SrcChain: "src-chain", DstChain: "dst-chain", Sequence: 7, Sender: "0xsender", TransferData: []byte{1, 2}, CallData: []byte{3}, CallbackAddress: "0xcb", FeeOption: 2}
	}, func(v interface{}) ([]byte, error) { return v.(*packettypes.Packet).ABIPack() },
		func(bz []byte) (interface{}, error) { var p packettypes.Packet; err := p.ABIDecode(bz); return &p, err }},
	{"Acknowledgement", func() interface{} {
		return &packettypes.Acknowledgement{Code: 1, Result: []byte{9}, Message: "msg", Relayer: "relayer", FeeOption: 3}
	}, func(v interface{}) ([]byte, error) { return v.(*packettypes.Acknowledgement).ABIPack() },
		func(bz []byte) (interface{}, error) {
			var p packettypes.Acknowledgement
			err := p.ABIDecode(bz)
			return &p, err
		}},
	{"TransferData", func() interface{} {
		return &packettypes.TransferData{Receiver: "0xrecv", Amount: []byte{0, 1}, Token: "0xtoken", OriToken: "0xori"}
	}, func(v interface{}) ([]byte, error) { return v.(*packettypes.TransferData).ABIPack() },
		func(bz []byte) (interface{}, error) {
			var p packettypes.TransferData
			err := p.ABIDecode(bz)
			return &p, err
		}},
	{"CallData", func() interface{} {
		return &packettypes.CallData{ContractAddress: "0xcontract", CallData: []byte{5, 6}}
	}, func(v interface{}) ([]byte, error) { return v.(*packettypes.CallData).ABIPack() },
		func(bz []byte) (interface{}, error) { var p packettypes.CallData; err := p.ABIDecode(bz); return &p, err }},
	{"Result", func() interface{} {
		return &packettypes.Result{Code: 2, Result: []byte{7}, Message: "m"}
	}, func(v interface{}) ([]byte, error) { return v.(*packettypes.Result).ABIPack() },
		func(bz []byte) (interface{}, error) { var p packettypes.Result; err := p.ABIDecode(bz); return &p, err }},
}

// equalModuloNil compares two struct pointers treating nil and empty byte slices as equal.
func equalModuloNil(a, b interface{}) (bool, string) {
	va, vb := reflect.ValueOf(a).Elem(), reflect.ValueOf(b).Elem()
	for i := 0; i < va.NumField(); i++ {
		fa, fb := va.Field(i), vb.Field(i)
		name := va.Type().Field(i).Name
		switch fa.Kind() {
		case reflect.Slice:
			if !bytes.Equal(fa.Bytes(), fb.Bytes()) {
				return false, name
			}
		default:
			if !reflect.DeepEqual(fa.Interface(), fb.Interface()) {
				return false, name
			}
		}
	}
	return true, ""
}

// valueKey is a canonical rendering of a value (nil and empty byte strings are the same value).
func valueKey(v interface{}) string {
	e := reflect.ValueOf(v).Elem()
	var parts []string
	for i := 0; i < e.NumField(); i++ {
		f := e.Field(i)
		if f.Kind() == reflect.Slice {
			parts = append(parts, fmt.Sprintf("%x", f.Bytes()))
		} else {
			parts = append(parts, fmt.Sprintf("%q", fmt.Sprint(f.Interface())))
		}
	}
	return strings.Join(parts, "|")
}

// variants sets field i of a fresh value to every alphabet entry.
func setField(v interface{}, i int, k int) (ok bool, desc string) {
	f := reflect.ValueOf(v).Elem().Field(i)
	name := reflect.ValueOf(v).Elem().Type().Field(i).Name
	switch f.Kind() {
	case reflect.String:
		if k >= len(strAlphabet) {
			return false, ""
		}
		f.SetString(strAlphabet[k])
		return true, fmt.Sprintf("%s=%q", name, strAlphabet[k])
	case reflect.Slice:
		if k >= len(bytesAlphabet) {
			return false, ""
		}
		f.SetBytes(bytesAlphabet[k])
		return true, fmt.Sprintf("%s=%x(len %d, nil=%v)", name, bytesAlphabet[k], len(bytesAlphabet[k]), bytesAlphabet[k] == nil)
	case reflect.Uint64:
		if k >= len(u64Alphabet) {
			return false, ""
		}
		f.SetUint(u64Alphabet[k])
		return true, fmt.Sprintf("%s=%d", name, u64Alphabet[k])
	}
	return false, ""
}

// Encoding enumerates all values with at most two non-default fields.
func Encoding(r *ev.Run, emitted [][]byte) (evals, nontrivial int64) {
	for _, c := range codecs {
		nf := reflect.ValueOf(c.fresh()).Elem().NumField()
		commit := map[string]string{} // sha256(encoding) -> description (injectivity)
		check := func(v interface{}, desc string) {
			evals++
			bz, err := c.encode(v)
			if err != nil {
				r.Outcome(c.name + " encode error")
				return
			}
			back, err := c.decode(bz)
			if err != nil {
				r.Violation("C19:decode-of-own-encoding-fails/"+c.name, fmt.Sprintf("%s {%s}: %v", c.name, desc, err), map[string]interface{}{"engine": "c19-enc", "type": c.name, "value": desc})
				return
			}
			if ok, field := equalModuloNil(v, back); !ok {
				r.Violation("C19:decode-encode-loses-field/"+c.name+"."+field, fmt.Sprintf("%s {%s}: decode(encode(v)) differs from v in field %s: got %+v", c.name, desc, field, back), map[string]interface{}{"engine": "c19-enc", "type": c.name, "value": desc})
				r.Outcome(c.name + " round trip loses " + field)
			} else {
				r.Outcome(c.name + " round trip ok")
			}
			// canonical: re-encoding the decoded value gives the same bytes
			bz2, err := c.encode(back)
			if err == nil && !bytes.Equal(bz, bz2) {
				if ok, _ := equalModuloNil(v, back); ok {
					r.Violation("C19:re-encoding-differs/"+c.name, fmt.Sprintf("%s {%s}", c.name, desc), map[string]interface{}{"engine": "c19-enc", "type": c.name, "value": desc})
				}
			}
			h := sha256.Sum256(bz)
			vk := valueKey(v)
			if prev, ok := commit[string(h[:])]; ok && prev != vk {
				r.Violation("C19:different-values-same-commitment/"+c.name, fmt.Sprintf("%s: %s and %s", c.name, prev, vk), map[string]interface{}{"engine": "c19-enc", "a": prev, "b": vk})
			}
			commit[string(h[:])] = vk
			if evals%211 == 1 {
				r.Sample(map[string]string{"type": c.name, "value": desc})
			}
		}
		check(c.fresh(), "default")
		for i := 0; i < nf; i++ {
			for k := 0; ; k++ {
				v := c.fresh()
				ok, d1 := setField(v, i, k)
				if !ok {
					break
				}
				check(v, d1)
				nontrivial++
				for j := i + 1; j < nf; j++ {
					for l := 0; ; l++ {
						w := c.fresh()
						setField(w, i, k)
						ok2, d2 := setField(w, j, l)
						if !ok2 {
							break
						}
						check(w, d1+" "+d2)
						nontrivial++
					}
				}
			}
		}
	}
	// bytes emitted by the real packet contract: re-encoding must reproduce them
	for _, bz := range emitted {
		evals++
		var p packettypes.Packet
		if err := p.ABIDecode(bz); err != nil {
			r.Violation("C19:contract-bytes-do-not-decode", err.Error(), nil)
			continue
		}
		re, err := p.ABIPack()
		if err != nil || !bytes.Equal(re, bz) {
			r.Violation("C19:re-encoding-contract-bytes-differs", fmt.Sprintf("packet %s/%s/%d", p.SrcChain, p.DstChain, p.Sequence), map[string]interface{}{"engine": "c19-enc", "bytes": fmt.Sprintf("%x", bz)})
		} else {
			r.Outcome("contract-emitted packet bytes re-encode identically")
			nontrivial++
		}
	}
	return
}
