package c19

import (
	commitmenttypes "github.com/teleport-network/teleport/x/xibc/core/commitment/types"
	"fmt"
	"sort"
	"strings"
	"time"

	sdk "github.com/cosmos/cosmos-sdk/types"

	bsctypes "github.com/teleport-network/teleport/x/xibc/clients/light-clients/bsc/types"
	ethclient "github.com/teleport-network/teleport/x/xibc/clients/light-clients/eth/types"
	xibctmtypes "github.com/teleport-network/teleport/x/xibc/clients/light-clients/tendermint/types"
	tsstypes "github.com/teleport-network/teleport/x/xibc/clients/tss-client/types"
	clienttypes "github.com/teleport-network/teleport/x/xibc/core/client/types"
	"github.com/teleport-network/teleport/x/xibc/core/host"
	packettypes "github.com/teleport-network/teleport/x/xibc/core/packet/types"
	"github.com/teleport-network/teleport/x/xibc/exported"

	"verif/internal/checks/c07"
	"verif/internal/ev"
)

var nameAlphabet = []string{"a", "A", "0", ".", "_", "+", "-", "#", "[", "]", "<", ">"} // (names are case-sensitive: "a" and "A" are different chains)

func allNames() []string {
	var out []string
	for _, a := range nameAlphabet {
		for _, b := range nameAlphabet {
			for _, c := range nameAlphabet {
				n := a + b + c
				if host.SrcChainValidator(n) == nil {
					out = append(out, n)
				}
			}
		}
	}
	for _, a := range nameAlphabet {
		n := strings.Repeat(a, 64)
		if host.SrcChainValidator(n) == nil {
			out = append(out, n)
		}
	}
	return out
}

var seqs = []uint64{1, 9, 10, 47, 1<<64 - 1}

type triple struct {
	src, dst string
	seq      uint64
}

// Keys checks injectivity of every key constructor and read-back through the real keepers and iterators.
func Keys(r *ev.Run, tier string) (evals, nontrivial int64) {
	names := allNames()
	r.Count("valid_chain_names", int64(len(names)))
	step := 33
	if tier == "thorough" {
		step = 7
	}
	var some []string
	for i := 0; i < len(names); i += step {
		some = append(some, names[i])
	}
	ctors := map[string]func(s, d string, q uint64) []byte{
		"commitment": host.PacketCommitmentKey, "ack": host.PacketAcknowledgementKey, "receipt": host.PacketReceiptKey, "relayer": host.PacketRelayerKey,
		"nextSend": func(s, d string, q uint64) []byte { return host.NextSequenceSendKey(s, d) },
	}
	all := map[string]string{} // across constructors too: no key of one kind equals a key of another kind
	for cname, f := range ctors {
		seen := map[string]triple{}
		add := func(t triple) {
			evals++
			if cname == "nextSend" {
				t.seq = 0
			}
			k := string(f(t.src, t.dst, t.seq))
			if prev, ok := seen[k]; ok && prev != t {
				r.Violation("C19:store-key-not-injective/"+cname, fmt.Sprintf("%v and %v map to %q", prev, t, k), map[string]interface{}{"engine": "c19-keys", "a": prev, "b": t})
			}
			seen[k] = t
			if other, ok := all[k]; ok && other != cname {
				r.Violation("C19:store-key-collides-across-kinds", fmt.Sprintf("%s and %s share key %q", other, cname, k), nil)
			}
			all[k] = cname
		}
		for _, a := range names {
			for _, b := range some {
				for _, q := range seqs {
					add(triple{a, b, q})
					add(triple{b, a, q})
				}
			}
		}
		nontrivial += int64(len(seen))
		r.Outcome(fmt.Sprintf("key constructor %s: %d distinct keys", cname, len(seen)))
	}

	// the proof path a proof-verifying client derives from a triple: prefix applied, key read back for the store lookup —
	// it must be exactly the key the keeper wrote (escaping of the path element must be loss-free for every valid name)
	{
		prefix := commitmenttypes.MerklePrefix{KeyPrefix: []byte("xibc")}
		paths := map[string]func(s, d string, q uint64) string{"commitment": host.PacketCommitmentPath, "ack": host.PacketAcknowledgementPath}
		keys := map[string]func(s, d string, q uint64) []byte{"commitment": host.PacketCommitmentKey, "ack": host.PacketAcknowledgementKey}
		for kind, pf := range paths {
			bad := 0
			for _, a := range names {
				for _, b := range some {
					for _, q := range []uint64{1, 1<<64 - 1} {
						evals++
						mp, err := commitmenttypes.ApplyPrefix(prefix, commitmenttypes.NewMerklePath(pf(a, b, q)))
						var got []byte
						if err == nil {
							got, err = mp.GetKey(1)
						}
						if want := keys[kind](a, b, q); err != nil || string(got) != string(want) {
							if bad == 0 {
								r.Violation("C19:proof-path-key-differs-from-store-key/"+kind, fmt.Sprintf("(%s,%s,%d): store key %q, key derived from the proof path %q (err %v)", a, b, q, want, got, err), map[string]interface{}{"engine": "c19-keys", "src": a, "dst": b, "seq": q})
							}
							bad++
						}
					}
				}
			}
			r.Outcome(fmt.Sprintf("proof path of %s keys reads back as the store key for every valid name (mismatches: %d)", kind, bad))
		}
	}

	// write through the real keeper setters, read back through the real iterators
	h := c07.NewHost()
	ctx := h.Ctx(time.Unix(1_700_000_000, 0))
	pk := h.C.App.XIBCKeeper.PacketKeeper
	var written []triple
	for i, a := range names {
		b := some[i%len(some)]
		if a == b {
			continue
		}
		written = append(written, triple{a, b, seqs[i%len(seqs)]})
	}
	want := map[string]bool{}
	for _, t := range written {
		pk.SetPacketCommitment(ctx, t.src, t.dst, t.seq, []byte{1})
		pk.SetPacketAcknowledgement(ctx, t.src, t.dst, t.seq, []byte{2})
		pk.SetPacketReceipt(ctx, t.src, t.dst, t.seq)
		pk.SetNextSequenceSend(ctx, t.src, t.dst, t.seq)
		want[fmt.Sprintf("%s|%s|%d", t.src, t.dst, t.seq)] = true
	}
	compare := func(what string, got []packettypes.PacketState) {
		evals++
		g := map[string]int{}
		for _, s := range got {
			g[fmt.Sprintf("%s|%s|%d", s.SrcChain, s.DstChain, s.Sequence)]++
		}
		for k := range want {
			if g[k] != 1 {
				r.Violation("C19:stored-key-not-read-back/"+what, fmt.Sprintf("%s written as %s is read back %d times", what, k, g[k]), map[string]interface{}{"engine": "c19-keys", "triple": k})
				return
			}
		}
		if len(g) != len(want) {
			r.Violation("C19:iterator-returns-unwritten-triples/"+what, fmt.Sprintf("%d read, %d written", len(g), len(want)), nil)
			return
		}
		r.Outcome(fmt.Sprintf("%s: %d triples written and read back through the keeper iterator", what, len(want)))
		nontrivial += int64(len(want))
	}
	safe := func(what string, f func() []packettypes.PacketState) {
		var got []packettypes.PacketState
		var pan interface{}
		func() {
			defer func() { pan = recover() }()
			got = f()
		}()
		if pan != nil {
			evals++
			r.Violation("C19:iterator-panics-on-stored-keys/"+what, fmt.Sprintf("reading back %s written through the keeper panics: %v", what, pan), map[string]interface{}{"engine": "c19-keys", "iterator": what})
			return
		}
		compare(what, got)
	}
	safe("commitments", func() []packettypes.PacketState { return pk.GetAllPacketCommitments(ctx) })
	safe("acks", func() []packettypes.PacketState { return pk.GetAllPacketAcks(ctx) })
	safe("receipts", func() []packettypes.PacketState { return pk.GetAllPacketReceipts(ctx) })
	safe("send-sequences", func() []packettypes.PacketState {
		var ps []packettypes.PacketState
		for _, s := range pk.GetAllPacketSendSeqs(ctx) {
			ps = append(ps, packettypes.PacketState{SrcChain: s.SrcChain, DstChain: s.DstChain, Sequence: s.Sequence})
		}
		return ps
	})

	evals += PointLookups(r, h, "C19")
	evals += ListQueries(r)
	evals += ManyRecords(r, "C19")

	// heights: per-byte exhaustive; key injectivity and read-back through every client's iterators
	var heights []clienttypes.Height
	for k := uint(0); k < 8; k++ {
		for b := uint64(1); b < 256; b++ {
			heights = append(heights, clienttypes.NewHeight(0, b<<(8*k)), clienttypes.NewHeight(b<<(8*k), 5))
		}
	}
	hk := map[string]clienttypes.Height{}
	for _, ht := range heights {
		evals++
		k := string(host.ConsensusStateKey(ht))
		if prev, ok := hk[k]; ok && prev != ht {
			r.Violation("C19:consensus-key-not-injective", fmt.Sprintf("%s and %s", prev, ht), nil)
		}
		hk[k] = ht
	}
	nontrivial += int64(len(hk))
	ck := h.C.App.XIBCKeeper.ClientKeeper
	hctx := h.Ctx(time.Unix(1_700_000_000, 0))
	type kind struct {
		name string
		cons func(ht clienttypes.Height) exported.ConsensusState
		iter func(store sdk.KVStore, cb func(exported.Height) bool)
	}
	kinds := []kind{
		{"tendermint", func(ht clienttypes.Height) exported.ConsensusState {
			return &xibctmtypes.ConsensusState{Timestamp: time.Unix(1, 0), Root: []byte("r"), NextValidatorsHash: make([]byte, 32)}
		}, func(store sdk.KVStore, cb func(exported.Height) bool) { xibctmtypes.IterateConsensusStateAscending(store, cb) }},
		{"bsc", func(ht clienttypes.Height) exported.ConsensusState {
			return &bsctypes.ConsensusState{Timestamp: 1, Height: ht, Root: []byte("r")}
		}, func(store sdk.KVStore, cb func(exported.Height) bool) { bsctypes.IterateConsensusStateAscending(store, cb) }},
		{"eth", func(ht clienttypes.Height) exported.ConsensusState {
			return &ethclient.ConsensusState{Timestamp: 1, Height: ht, Root: []byte("r")}
		}, func(store sdk.KVStore, cb func(exported.Height) bool) { ethclient.IterateConsensusStateAscending(store, cb) }},
	}
	for _, kd := range kinds {
		name := "hk-" + kd.name
		store := ck.ClientStore(hctx, name)
		for _, ht := range heights {
			ck.SetClientConsensusState(hctx, name, ht, kd.cons(ht))
			if kd.name == "tendermint" {
				xibctmtypes.SetProcessedTime(store, ht, 7)
				xibctmtypes.SetIterationKey(store, ht)
			}
		}
		got := map[string]int{}
		kd.iter(store, func(ht exported.Height) bool { got[ht.String()]++; return false })
		evals++
		missing := 0
		for _, ht := range heights {
			if got[ht.String()] != 1 {
				missing++
				if missing == 1 {
					r.Violation("C19:consensus-height-not-read-back/"+kd.name+"-client-iterator", fmt.Sprintf("%s: height %s written, read back %d times by the client's own iterator", kd.name, ht, got[ht.String()]), map[string]interface{}{"engine": "c19-keys", "height": ht.String()})
				}
			}
		}
		if missing == 0 {
			r.Outcome(fmt.Sprintf("%s client iterator reads back all %d heights", kd.name, len(heights)))
			nontrivial += int64(len(heights))
		}
		if kd.name == "tendermint" {
			n := 0
			xibctmtypes.IterateProcessedTime(store, func(k, v []byte) bool { n++; return false })
			evals++
			if n != len(heights) {
				r.Violation("C19:processed-time-keys-not-read-back", fmt.Sprintf("%d of %d processed-time keys iterated", n, len(heights)), nil)
			} else {
				r.Outcome("tendermint processed-time iterator reads back all heights")
			}
		}
	}
	// the textual form of heights (used inside store keys) parses back to the same height over the whole uint64 range
	{
		grid := []uint64{0, 1, 9, 10, 47, 1<<32 - 1, 1 << 32, 1<<63 - 1, 1 << 63, 1<<64 - 1}
		bad := 0
		for _, rv := range grid {
			for _, hv := range grid {
				ht := clienttypes.NewHeight(rv, hv)
				evals++
				back, err := clienttypes.ParseHeight(ht.String())
				if err != nil || !back.EQ(ht) {
					if bad == 0 {
						r.Violation("C19:height-text-form-not-parsed-back", fmt.Sprintf("%s parses back as %s (err %v)", ht, back, err), nil)
					}
					bad++
				}
			}
		}
		if bad == 0 {
			r.Outcome("height text form parses back over the uint64 grid")
		}
	}
	// the keeper's own iterator over all clients
	{
		got := map[string]int{}
		func() {
			defer func() {
				if rec := recover(); rec != nil {
					r.Violation("C19:consensus-height-not-read-back/keeper-iterator-panics", fmt.Sprint(rec), nil)
				}
			}()
			ck.IterateConsensusStates(hctx, func(chain string, cs clienttypes.ConsensusStateWithHeight) bool {
				got[chain+"@"+cs.Height.String()]++
				return false
			})
		}()
		evals++
		missing := 0
		for _, kd := range kinds {
			for _, ht := range heights {
				if got["hk-"+kd.name+"@"+ht.String()] != 1 {
					missing++
					if missing == 1 {
						r.Violation("C19:consensus-height-not-read-back/keeper-iterator", fmt.Sprintf("hk-%s height %s read back %d times", kd.name, ht, got["hk-"+kd.name+"@"+ht.String()]), nil)
					}
				}
			}
		}
		if missing == 0 {
			r.Outcome("keeper consensus-state iterator reads back every (client, height)")
		}
	}
	// client names: every valid name is found again by the client iterator
	{
		nctx := h.Ctx(time.Unix(1_700_000_000, 0))
		acc := "cosmos1qypqxpq9qcrsszg2pvxq6rs0zqg3yyc5lzv7xu"
		for _, n := range names {
			ck.SetClientState(nctx, n, &tsstypes.ClientState{TssAddress: acc})
		}
		var got []string
		for _, c := range ck.GetAllGenesisClients(nctx) {
			got = append(got, c.ChainName)
		}
		sort.Strings(got)
		w := append([]string{}, names...)
		sort.Strings(w)
		evals++
		if strings.Join(got, "\x00") != strings.Join(w, "\x00") {
			r.Violation("C19:client-names-not-read-back", fmt.Sprintf("%d names written, %d read", len(w), len(got)), nil)
		} else {
			r.Outcome(fmt.Sprintf("client iterator reads back all %d chain names", len(w)))
			nontrivial += int64(len(w))
		}
	}
	return
}

// PointLookups: a receipt / acknowledgement / commitment / client written for one name is found under exactly that name —
// not under the name in another letter case, with surrounding blanks, or under other names (violations carry the given
// property id: the exactly-once guard of C01 rests on these look-ups as much as C19's read-back clause does).
func PointLookups(r *ev.Run, h *c07.Host, prop string) (n int64) {
	pk := h.C.App.XIBCKeeper.PacketKeeper
		lctx := h.Ctx(time.Unix(1_700_000_000, 0))
		lck := h.C.App.XIBCKeeper.ClientKeeper
		type pr struct{ a, b string }
		pairs := []pr{{"Teleport-A", "chain-b"}, {"chain-b", "ETH"}, {"aB", "Ab"}, {"x.y", "X.Y"}}
		bad := 0
		for _, p := range pairs {
			pk.SetPacketReceipt(lctx, p.a, p.b, 7)
			pk.SetPacketAcknowledgement(lctx, p.a, p.b, 7, []byte("ack-hash"))
			pk.SetPacketCommitment(lctx, p.a, p.b, 7, []byte("commitment-hash"))
			lck.SetClientState(lctx, p.a, &tsstypes.ClientState{TssAddress: "cosmos1qypqxpq9qcrsszg2pvxq6rs0zqg3yyc5lzv7xu"})
		}
		variants := func(n string) []string {
			return []string{strings.ToLower(n), strings.ToUpper(n), " " + n, n + " "}
		}
		for _, p := range pairs {
			n++
			if _, ok := pk.GetPacketReceipt(lctx, p.a, p.b, 7); !ok || !pk.HasPacketAcknowledgement(lctx, p.a, p.b, 7) || !pk.HasPacketCommitment(lctx, p.a, p.b, 7) {
				r.Violation(prop+":written-packet-record-not-found-under-its-own-triple", fmt.Sprintf("(%s,%s,7)", p.a, p.b), nil)
				bad++
			}
			if _, ok := lck.GetClientState(lctx, p.a); !ok {
				r.Violation(prop+":written-client-not-found-under-its-own-name", p.a, nil)
				bad++
			}
			written := map[string]bool{}
			for _, q := range pairs {
				written[q.a+"|"+q.b] = true
			}
			for _, va := range variants(p.a) {
				for _, vb := range variants(p.b) {
					if written[va+"|"+vb] {
						continue
					}
					n++
					_, rc := pk.GetPacketReceipt(lctx, va, vb, 7)
					if rc || pk.HasPacketAcknowledgement(lctx, va, vb, 7) || pk.HasPacketCommitment(lctx, va, vb, 7) || func() bool { _, ok := pk.GetPacketAcknowledgement(lctx, va, vb, 7); return ok }() {
						if bad == 0 {
							r.Violation(prop+":packet-record-found-under-another-triple", fmt.Sprintf("written for (%q,%q,7), found under (%q,%q,7)", p.a, p.b, va, vb), nil)
						}
						bad++
					}
				}
				if va != p.a {
					isOther := false
					for _, q := range pairs {
						if q.a == va {
							isOther = true
						}
					}
					if _, ok := lck.GetClientState(lctx, va); ok && !isOther {
						if bad == 0 {
							r.Violation(prop+":client-found-under-another-name", fmt.Sprintf("written for %q, found under %q", p.a, va), nil)
						}
						bad++
					}
				}
			}
		}
		// sequences over the whole uint64 range: every record is found under exactly the sequence it was written for
		// (every point look-up the keepers offer; values read back as written; the neighbours and the values that coincide
		// with it after a signed or 32-bit conversion hold nothing)
		wseqs := []uint64{1, 9, 10, 1<<31 - 1, 1 << 31, 1<<32 - 1, 1 << 32, 1<<63 - 1, 1 << 63, 1<<63 + 1, 1<<64 - 2, 1<<64 - 1}
		isW := map[uint64]bool{}
		for i, q := range wseqs {
			isW[q] = true
			v := []byte(fmt.Sprintf("v%d", i))
			pk.SetPacketReceipt(lctx, "seq-src", "seq-dst", q)
			pk.SetPacketAcknowledgement(lctx, "seq-src", "seq-dst", q, append([]byte("a"), v...))
			pk.SetPacketCommitment(lctx, "seq-src", "seq-dst", q, append([]byte("c"), v...))
		}
		for i, q := range wseqs {
			n++
			v := []byte(fmt.Sprintf("v%d", i))
			_, rc := pk.GetPacketReceipt(lctx, "seq-src", "seq-dst", q)
			ab, aok := pk.GetPacketAcknowledgement(lctx, "seq-src", "seq-dst", q)
			cb := pk.GetPacketCommitment(lctx, "seq-src", "seq-dst", q)
			if !rc || !pk.HasPacketReceipt(lctx, "seq-src", "seq-dst", q) || !aok || !pk.HasPacketAcknowledgement(lctx, "seq-src", "seq-dst", q) || !pk.HasPacketCommitment(lctx, "seq-src", "seq-dst", q) ||
				string(ab) != "a"+string(v) || string(cb) != "c"+string(v) {
				if bad == 0 {
					r.Violation(prop+":written-packet-record-not-found-under-its-own-triple", fmt.Sprintf("(seq-src,seq-dst,%d): receipt found=%v ack=%q(%v) commitment=%q", q, rc, ab, aok, cb), nil)
				}
				bad++
			}
			for _, o := range []uint64{q - 1, q + 1, q ^ (1 << 63), uint64(uint32(q)), uint64(int64(int32(q)))} {
				if isW[o] || o == 0 {
					continue
				}
				n++
				_, rc := pk.GetPacketReceipt(lctx, "seq-src", "seq-dst", o)
				if rc || pk.HasPacketReceipt(lctx, "seq-src", "seq-dst", o) || pk.HasPacketAcknowledgement(lctx, "seq-src", "seq-dst", o) || pk.HasPacketCommitment(lctx, "seq-src", "seq-dst", o) {
					if bad == 0 {
						r.Violation(prop+":packet-record-found-under-another-triple", fmt.Sprintf("written for sequence %d, found under %d", q, o), nil)
					}
					bad++
				}
			}
		}
		if bad == 0 {
			r.Outcome("point look-ups find packet records and clients under exactly the names and sequences they were written for")
		}
	return
}
