package c19

import (
	"fmt"
	"sort"
	"time"

	sdk "github.com/cosmos/cosmos-sdk/types"
	"github.com/cosmos/cosmos-sdk/types/query"

	tsstypes "github.com/teleport-network/teleport/x/xibc/clients/tss-client/types"
	xibctmtypes "github.com/teleport-network/teleport/x/xibc/clients/light-clients/tendermint/types"
	clienttypes "github.com/teleport-network/teleport/x/xibc/core/client/types"
	packettypes "github.com/teleport-network/teleport/x/xibc/core/packet/types"

	"verif/internal/checks/c07"
	"verif/internal/ev"
)

// prefixNames are valid chain names every one of which is a proper prefix of, or differs only behind a separator
// character from, another one: list queries that open a store on a path that does not end at an element boundary read
// another path's records.
var prefixNames = []string{"bsc", "bsc-testnet", "bscx", "bsc.1", "teleport", "teleport-2"}

// ListQueries writes packet records and consensus states for prefix-related chain names through the keepers and reads
// them back through the per-path gRPC list queries (in one page and one record per page): every query must answer
// exactly the records written for its own path, with their values.
func ListQueries(r *ev.Run) (evals int64) {
	h := c07.NewHost()
	ctx := h.Ctx(time.Unix(1_700_000_000, 0))
	pk := h.C.App.XIBCKeeper.PacketKeeper
	ck := h.C.App.XIBCKeeper.ClientKeeper
	type rec struct {
		seq uint64
		val string
	}
	written := map[string][]rec{} // "src|dst" -> records
	n := 0
	for _, a := range prefixNames {
		for _, b := range prefixNames {
			if a == b {
				continue
			}
			for _, q := range []uint64{1, 2, 10} {
				n++
				if (n+int(q))%3 == 0 {
					continue // not every path holds every sequence
				}
				v := fmt.Sprintf("%s>%s#%d", a, b, q)
				pk.SetPacketCommitment(ctx, a, b, q, []byte("c:"+v))
				pk.SetPacketAcknowledgement(ctx, a, b, q, []byte("a:"+v))
				written[a+"|"+b] = append(written[a+"|"+b], rec{q, v})
			}
		}
	}
	canon := func(ps []*packettypes.PacketState) string {
		var out []string
		for _, p := range ps {
			out = append(out, fmt.Sprintf("%s|%s|%020d=%s", p.SrcChain, p.DstChain, p.Sequence, p.Data))
		}
		sort.Strings(out)
		return fmt.Sprint(out)
	}
	gctx := sdk.WrapSDKContext(ctx)
	bad := false
	for _, a := range prefixNames {
		for _, b := range prefixNames {
			if a == b {
				continue
			}
			var wantC, wantA []*packettypes.PacketState
			for _, w := range written[a+"|"+b] {
				wantC = append(wantC, &packettypes.PacketState{SrcChain: a, DstChain: b, Sequence: w.seq, Data: []byte("c:" + w.val)})
				wantA = append(wantA, &packettypes.PacketState{SrcChain: a, DstChain: b, Sequence: w.seq, Data: []byte("a:" + w.val)})
			}
			for _, limit := range []uint64{100, 1} {
				var gotC, gotA []*packettypes.PacketState
				var errC, errA error
				func() {
					defer func() {
						if rec := recover(); rec != nil {
							errC = fmt.Errorf("panic: %v", rec)
						}
					}()
					var key []byte
					for page := 0; page < 50; page++ {
						res, err := pk.PacketCommitments(gctx, &packettypes.QueryPacketCommitmentsRequest{SrcChain: a, DstChain: b, Pagination: &query.PageRequest{Key: key, Limit: limit}})
						if err != nil {
							errC = err
							return
						}
						gotC = append(gotC, res.Commitments...)
						if key = res.Pagination.NextKey; len(key) == 0 {
							break
						}
					}
					key = nil
					for page := 0; page < 50; page++ {
						res, err := pk.PacketAcknowledgements(gctx, &packettypes.QueryPacketAcknowledgementsRequest{SrcChain: a, DstChain: b, Pagination: &query.PageRequest{Key: key, Limit: limit}})
						if err != nil {
							errA = err
							return
						}
						gotA = append(gotA, res.Acknowledgements...)
						if key = res.Pagination.NextKey; len(key) == 0 {
							break
						}
					}
				}()
				evals += 2
				if !bad && (errC != nil || canon(gotC) != canon(wantC)) {
					bad = true
					r.Violation("C19:list-query-does-not-answer-the-records-of-its-path/commitments", fmt.Sprintf("PacketCommitments(%s,%s) page size %d answers %s %v; written for this path: %s", a, b, limit, canon(gotC), errC, canon(wantC)), map[string]interface{}{"engine": "c19-queries", "src": a, "dst": b})
				}
				if !bad && (errA != nil || canon(gotA) != canon(wantA)) {
					bad = true
					r.Violation("C19:list-query-does-not-answer-the-records-of-its-path/acknowledgements", fmt.Sprintf("PacketAcknowledgements(%s,%s) page size %d answers %s %v; written for this path: %s", a, b, limit, canon(gotA), errA, canon(wantA)), map[string]interface{}{"engine": "c19-queries", "src": a, "dst": b})
				}
			}
		}
	}
	// consensus states per client name
	wantH := map[string][]string{}
	for i, a := range prefixNames {
		ck.SetClientState(ctx, a, &tsstypes.ClientState{TssAddress: "cosmos1qypqxpq9qcrsszg2pvxq6rs0zqg3yyc5lzv7xu"})
		hts := []clienttypes.Height{}
		for j := 0; j <= i%3; j++ {
			hts = append(hts, clienttypes.NewHeight(uint64(i%2), uint64(10*(i+1)+j)))
		}
		// heights whose 16-byte key contains the path separator byte 0x2f ('/') in the height or in the revision number
		hts = append(hts, clienttypes.NewHeight(0, 47), clienttypes.NewHeight(0, 0x2f00+uint64(i)), clienttypes.NewHeight(47, 5), clienttypes.NewHeight(0x2f2f, 0x2f))
		for _, ht := range hts {
			ck.SetClientConsensusState(ctx, a, ht, &xibctmtypes.ConsensusState{Timestamp: time.Unix(int64(1000+i), 0), Root: []byte(a), NextValidatorsHash: make([]byte, 32)})
			wantH[a] = append(wantH[a], fmt.Sprintf("%s=%s", ht, a))
		}
	}
	for _, a := range prefixNames {
		for _, limit := range []uint64{100, 1} {
			var got []string
			var qerr error
			func() {
				defer func() {
					if rec := recover(); rec != nil {
						qerr = fmt.Errorf("panic: %v", rec)
					}
				}()
				var key []byte
				for page := 0; page < 50; page++ {
					res, err := ck.ConsensusStates(gctx, &clienttypes.QueryConsensusStatesRequest{ChainName: a, Pagination: &query.PageRequest{Key: key, Limit: limit}})
					if err != nil {
						qerr = err
						return
					}
					for _, cs := range res.ConsensusStates {
						st, err := clienttypes.UnpackConsensusState(cs.ConsensusState)
						if err != nil {
							qerr = err
							return
						}
						got = append(got, fmt.Sprintf("%s=%s", cs.Height, st.GetRoot()))
					}
					if key = res.Pagination.NextKey; len(key) == 0 {
						break
					}
				}
			}()
			evals++
			sort.Strings(got)
			want := append([]string{}, wantH[a]...)
			sort.Strings(want)
			if !bad && (qerr != nil || fmt.Sprint(got) != fmt.Sprint(want)) {
				bad = true
				r.Violation("C19:list-query-does-not-answer-the-records-of-its-path/consensus-states", fmt.Sprintf("ConsensusStates(%s) page size %d answers %v %v; written for this client: %v", a, limit, got, qerr, want), map[string]interface{}{"engine": "c19-queries", "client": a})
			}
		}
	}
	if !bad {
		r.Outcome(fmt.Sprintf("list queries: %d paths over %d prefix-related chain names answered exactly their own records", len(written), len(prefixNames)))
	}
	return evals
}
