package c19

import (
	"fmt"
	"sort"
	"time"

	sdk "github.com/cosmos/cosmos-sdk/types"
	"github.com/cosmos/cosmos-sdk/types/query"

	tsstypes "github.com/teleport-network/teleport/x/xibc/clients/tss-client/types"
	xibctmtypes "github.com/teleport-network/teleport/x/xibc/clients/light-clients/tendermint/types"
	clienttypes "github.com/teleport-network/teleport/x/xibc/core/client/types"
	packetmodule "github.com/teleport-network/teleport/x/xibc/core/packet"
	packettypes "github.com/teleport-network/teleport/x/xibc/core/packet/types"

	"verif/internal/checks/c07"
	"verif/internal/ev"
)

// prefixNames are valid chain names every one of which is a proper prefix of, or differs only behind a separator
// character from, another one: list queries that open a store on a path that does not end at an element boundary read
// another path's records.
var prefixNames = []string{"bsc", "bsc-testnet", "bscx", "bsc.1", "teleport", "teleport-2"}

// ListQueries writes packet records and consensus states for prefix-related chain names through the keepers and reads
// them back through the per-path gRPC list queries (in one page and one record per page): every query must answer
// exactly the records written for its own path, with their values.
func ListQueries(r *ev.Run) (evals int64) {
	h := c07.NewHost()
	ctx := h.Ctx(time.Unix(1_700_000_000, 0))
	pk := h.C.App.XIBCKeeper.PacketKeeper
	ck := h.C.App.XIBCKeeper.ClientKeeper
	type rec struct {
		seq uint64
		val string
	}
	written := map[string][]rec{} // "src|dst" -> records
	n := 0
	for _, a := range prefixNames {
		for _, b := range prefixNames {
			if a == b {
				continue
			}
			for _, q := range []uint64{1, 2, 10} {
				n++
				if (n+int(q))%3 == 0 {
					continue // not every path holds every sequence
				}
				v := fmt.Sprintf("%s>%s#%d", a, b, q)
				pk.SetPacketCommitment(ctx, a, b, q, []byte("c:"+v))
				pk.SetPacketAcknowledgement(ctx, a, b, q, []byte("a:"+v))
				written[a+"|"+b] = append(written[a+"|"+b], rec{q, v})
			}
		}
	}
	canon := func(ps []*packettypes.PacketState) string {
		var out []string
		for _, p := range ps {
			out = append(out, fmt.Sprintf("%s|%s|%020d=%s", p.SrcChain, p.DstChain, p.Sequence, p.Data))
		}
		sort.Strings(out)
		return fmt.Sprint(out)
	}
	gctx := sdk.WrapSDKContext(ctx)
	bad := false
	for _, a := range prefixNames {
		for _, b := range prefixNames {
			if a == b {
				continue
			}
			var wantC, wantA []*packettypes.PacketState
			for _, w := range written[a+"|"+b] {
				wantC = append(wantC, &packettypes.PacketState{SrcChain: a, DstChain: b, Sequence: w.seq, Data: []byte("c:" + w.val)})
				wantA = append(wantA, &packettypes.PacketState{SrcChain: a, DstChain: b, Sequence: w.seq, Data: []byte("a:" + w.val)})
			}
			for _, limit := range []uint64{100, 1} {
				var gotC, gotA []*packettypes.PacketState
				var errC, errA error
				func() {
					defer func() {
						if rec := recover(); rec != nil {
							errC = fmt.Errorf("panic: %v", rec)
						}
					}()
					var key []byte
					for page := 0; page < 50; page++ {
						res, err := pk.PacketCommitments(gctx, &packettypes.QueryPacketCommitmentsRequest{SrcChain: a, DstChain: b, Pagination: &query.PageRequest{Key: key, Limit: limit}})
						if err != nil {
							errC = err
							return
						}
						gotC = append(gotC, res.Commitments...)
						if key = res.Pagination.NextKey; len(key) == 0 {
							break
						}
					}
					key = nil
					for page := 0; page < 50; page++ {
						res, err := pk.PacketAcknowledgements(gctx, &packettypes.QueryPacketAcknowledgementsRequest{SrcChain: a, DstChain: b, Pagination: &query.PageRequest{Key: key, Limit: limit}})
						if err != nil {
							errA = err
							return
						}
						gotA = append(gotA, res.Acknowledgements...)
						if key = res.Pagination.NextKey; len(key) == 0 {
							break
						}
					}
				}()
				evals += 2
				if !bad && (errC != nil || canon(gotC) != canon(wantC)) {
					bad = true
					r.Violation("C19:list-query-does-not-answer-the-records-of-its-path/commitments", fmt.Sprintf("PacketCommitments(%s,%s) page size %d answers %s %v; written for this path: %s", a, b, limit, canon(gotC), errC, canon(wantC)), map[string]interface{}{"engine": "c19-queries", "src": a, "dst": b})
				}
				if !bad && (errA != nil || canon(gotA) != canon(wantA)) {
					bad = true
					r.Violation("C19:list-query-does-not-answer-the-records-of-its-path/acknowledgements", fmt.Sprintf("PacketAcknowledgements(%s,%s) page size %d answers %s %v; written for this path: %s", a, b, limit, canon(gotA), errA, canon(wantA)), map[string]interface{}{"engine": "c19-queries", "src": a, "dst": b})
				}
			}
		}
	}
	// consensus states per client name
	wantH := map[string][]string{}
	for i, a := range prefixNames {
		ck.SetClientState(ctx, a, &tsstypes.ClientState{TssAddress: "cosmos1qypqxpq9qcrsszg2pvxq6rs0zqg3yyc5lzv7xu"})
		hts := []clienttypes.Height{}
		for j := 0; j <= i%3; j++ {
			hts = append(hts, clienttypes.NewHeight(uint64(i%2), uint64(10*(i+1)+j)))
		}
		// heights whose 16-byte key contains the path separator byte 0x2f ('/') in the height or in the revision number
		hts = append(hts, clienttypes.NewHeight(0, 47), clienttypes.NewHeight(0, 0x2f00+uint64(i)), clienttypes.NewHeight(47, 5), clienttypes.NewHeight(0x2f2f, 0x2f))
		for _, ht := range hts {
			ck.SetClientConsensusState(ctx, a, ht, &xibctmtypes.ConsensusState{Timestamp: time.Unix(int64(1000+i), 0), Root: []byte(a), NextValidatorsHash: make([]byte, 32)})
			wantH[a] = append(wantH[a], fmt.Sprintf("%s=%s", ht, a))
		}
	}
	for _, a := range prefixNames {
		for _, limit := range []uint64{100, 1} {
			var got []string
			var qerr error
			func() {
				defer func() {
					if rec := recover(); rec != nil {
						qerr = fmt.Errorf("panic: %v", rec)
					}
				}()
				var key []byte
				for page := 0; page < 50; page++ {
					res, err := ck.ConsensusStates(gctx, &clienttypes.QueryConsensusStatesRequest{ChainName: a, Pagination: &query.PageRequest{Key: key, Limit: limit}})
					if err != nil {
						qerr = err
						return
					}
					for _, cs := range res.ConsensusStates {
						st, err := clienttypes.UnpackConsensusState(cs.ConsensusState)
						if err != nil {
							qerr = err
							return
						}
						got = append(got, fmt.Sprintf("%s=%s", cs.Height, st.GetRoot()))
					}
					if key = res.Pagination.NextKey; len(key) == 0 {
						break
					}
				}
			}()
			evals++
			sort.Strings(got)
			want := append([]string{}, wantH[a]...)
			sort.Strings(want)
			if !bad && (qerr != nil || fmt.Sprint(got) != fmt.Sprint(want)) {
				bad = true
				r.Violation("C19:list-query-does-not-answer-the-records-of-its-path/consensus-states", fmt.Sprintf("ConsensusStates(%s) page size %d answers %v %v; written for this client: %v", a, limit, got, qerr, want), map[string]interface{}{"engine": "c19-queries", "client": a})
			}
		}
	}
	// the client list query names exactly the clients written, each under its own name
	func() {
		defer func() {
			if rec := recover(); rec != nil && !bad {
				bad = true
				r.Violation("C19:list-query-does-not-answer-the-records-of-its-path/clients", fmt.Sprintf("ClientStates panics: %v", rec), nil)
			}
		}()
		evals++
		res, err := ck.ClientStates(gctx, &clienttypes.QueryClientStatesRequest{})
		var got []string
		if err == nil {
			for _, c := range res.ClientStates {
				got = append(got, c.ChainName)
			}
		}
		sort.Strings(got)
		want := append([]string{}, prefixNames...)
		sort.Strings(want)
		if !bad && (err != nil || fmt.Sprint(got) != fmt.Sprint(want)) {
			bad = true
			r.Violation("C19:list-query-does-not-answer-the-records-of-its-path/clients", fmt.Sprintf("ClientStates answers %v %v; clients written: %v", got, err, want), map[string]interface{}{"engine": "c19-queries"})
		}
	}()
	// per-path point queries and the relayers' "what is still outstanding" queries
	for _, a := range prefixNames {
		for _, b := range prefixNames {
			if a == b {
				continue
			}
			has := map[uint64]string{}
			for _, w := range written[a+"|"+b] {
				has[w.seq] = w.val
			}
			var wantOut []uint64
			for _, q := range []uint64{1, 2, 10} {
				evals++
				cres, cerr := pk.PacketCommitment(gctx, &packettypes.QueryPacketCommitmentRequest{SrcChain: a, DstChain: b, Sequence: q})
				ares, aerr := pk.PacketAcknowledgement(gctx, &packettypes.QueryPacketAcknowledgementRequest{SrcChain: a, DstChain: b, Sequence: q})
				v, ok := has[q]
				if ok {
					wantOut = append(wantOut, q)
				}
				okC := ok == (cerr == nil) && (!ok || string(cres.Commitment) == "c:"+v)
				okA := ok == (aerr == nil) && (!ok || string(ares.Acknowledgement) == "a:"+v)
				if !bad && (!okC || !okA) {
					bad = true
					r.Violation("C19:point-query-does-not-answer-the-record-of-its-triple", fmt.Sprintf("(%s,%s,%d): written=%v; PacketCommitment answers %v %v, PacketAcknowledgement answers %v %v", a, b, q, ok, cres, cerr, ares, aerr), map[string]interface{}{"engine": "c19-queries", "src": a, "dst": b, "sequence": q})
				}
			}
			evals++
			ures, uerr := pk.UnreceivedAcks(gctx, &packettypes.QueryUnreceivedAcksRequest{SrcChain: a, DstChain: b, PacketAckSequences: []uint64{1, 2, 10}})
			if !bad && (uerr != nil || fmt.Sprint(ures.Sequences) != fmt.Sprint(append([]uint64{}, wantOut...))) {
				bad = true
				r.Violation("C19:outstanding-query-does-not-answer-the-records-of-its-path", fmt.Sprintf("UnreceivedAcks(%s,%s,[1 2 10]) answers %v %v; commitments written for this path: %v", a, b, ures, uerr, wantOut), map[string]interface{}{"engine": "c19-queries", "src": a, "dst": b})
			}
		}
	}
	if !bad {
		r.Outcome(fmt.Sprintf("list queries: %d paths over %d prefix-related chain names answered exactly their own records", len(written), len(prefixNames)))
	}
	return evals
}

// ManyRecords: a chain holding a few hundred packet records (more than any page size a paginated walk would default to)
// is exported and the export imported into a fresh chain: every receipt, acknowledgement, commitment and send counter
// must still be there (the exactly-once guards of a restarted chain are only as good as its export).
func ManyRecords(r *ev.Run, prop string) (evals int64) {
	h := c07.NewHost()
	ctx := h.Ctx(time.Unix(1_700_000_000, 0))
	pk := h.C.App.XIBCKeeper.PacketKeeper
	paths := [][2]string{{"chain-a", "teleport"}, {"chain-b", "teleport"}, {"teleport", "chain-a"}}
	const n = 130
	for pi, p := range paths {
		for q := uint64(1); q <= n; q++ {
			if pi == 1 && q%3 == 0 {
				continue
			}
			pk.SetPacketReceipt(ctx, p[0], p[1], q)
			pk.SetPacketAcknowledgement(ctx, p[0], p[1], q, []byte(fmt.Sprintf("a%d/%d", pi, q)))
			pk.SetPacketCommitment(ctx, p[0], p[1], q, []byte(fmt.Sprintf("c%d/%d", pi, q)))
		}
		pk.SetNextSequenceSend(ctx, p[0], p[1], n+1)
	}
	var pan interface{}
	fresh := c07.NewHost()
	fctx := fresh.Ctx(time.Unix(1_700_000_000, 0))
	func() {
		defer func() { pan = recover() }()
		g := packetmodule.ExportGenesis(ctx, pk)
		if err := g.Validate(); err != nil {
			panic(fmt.Sprintf("exported packet genesis fails its validation: %v", err))
		}
		packetmodule.InitGenesis(fctx, fresh.C.App.XIBCKeeper.PacketKeeper, g)
	}()
	if pan != nil {
		r.Violation(prop+":packet-records-lost-by-export-and-import", fmt.Sprintf("export/import of %d records per path panics: %v", n, pan), nil)
		return 1
	}
	fk := fresh.C.App.XIBCKeeper.PacketKeeper
	lost := 0
	first := ""
	for pi, p := range paths {
		for q := uint64(1); q <= n; q++ {
			evals++
			want := !(pi == 1 && q%3 == 0)
			_, rc := fk.GetPacketReceipt(fctx, p[0], p[1], q)
			ab, aok := fk.GetPacketAcknowledgement(fctx, p[0], p[1], q)
			cb := fk.GetPacketCommitment(fctx, p[0], p[1], q)
			ok := rc == want && aok == want && (len(cb) > 0) == want
			if want && ok {
				ok = string(ab) == fmt.Sprintf("a%d/%d", pi, q) && string(cb) == fmt.Sprintf("c%d/%d", pi, q)
			}
			if !ok {
				lost++
				if first == "" {
					first = fmt.Sprintf("(%s,%s,%d): written=%v, after export and import receipt=%v ack=%q commitment=%q", p[0], p[1], q, want, rc, ab, cb)
				}
			}
		}
		if got := fk.GetNextSequenceSend(fctx, p[0], p[1]); got != n+1 {
			lost++
			if first == "" {
				first = fmt.Sprintf("next send sequence of (%s,%s) is %d after export and import, was %d", p[0], p[1], got, n+1)
			}
		}
	}
	if lost > 0 {
		r.Violation(prop+":packet-records-lost-by-export-and-import", fmt.Sprintf("%d of %d records differ after the packet module's export and import; first: %s", lost, 3*n, first), map[string]interface{}{"engine": "c19-many-records"})
	} else {
		r.Outcome(fmt.Sprintf("%d packet records per path survive export and import", n))
	}
	return evals
}
