// Package c20 decides C20: reward vesting releases min(reward, remaining) per
// denomination per block, moves nothing else, conserves supply.
//
// Explicit-state search over the real application: every operation is one real
// ABCI block (BeginBlock runs the real module manager, hence rvesting's
// BeginBlocker followed by distribution's), optionally containing a parameter
// change executed by the real params proposal handler (i.e. through the
// module's own validation).
package c20

import (
	"encoding/json"
	"fmt"
	"sort"
	"strings"
	"time"

	"github.com/cosmos/cosmos-sdk/codec"
	sdk "github.com/cosmos/cosmos-sdk/types"
	authtypes "github.com/cosmos/cosmos-sdk/x/auth/types"
	banktypes "github.com/cosmos/cosmos-sdk/x/bank/types"
	distrtypes "github.com/cosmos/cosmos-sdk/x/distribution/types"
	"github.com/cosmos/cosmos-sdk/x/params"
	paramproposal "github.com/cosmos/cosmos-sdk/x/params/types/proposal"

	rvesting "github.com/teleport-network/teleport/x/rvesting/module"
	rvtypes "github.com/teleport-network/teleport/x/rvesting/types"

	"verif/internal/bfs"
	"verif/internal/world"
)

const (
	dA = "aaa"
	dB = "bbb"
)

// Bounds of one tier.
type Bounds struct {
	Pools   []int64
	Amounts []int64
	Depth   int
}

func TierBounds(tier string) Bounds {
	if tier == "thorough" {
		return Bounds{Pools: []int64{0, 1, 2, 5, 7}, Amounts: []int64{0, 1, 3}, Depth: 10}
	}
	return Bounds{Pools: []int64{0, 2, 5}, Amounts: []int64{1, 3}, Depth: 4}
}

type sys struct {
	b      Bounds
	c      *world.Chain
	now    time.Time
	dead   string
	inited bool
	mp     rvtypes.Params // reference model of the parameters: genesis values, updated when a parameter change is accepted (never read back from the module)
}

// New returns the pre-initial pseudo state (its operations choose the pool).
func New(b Bounds) bfs.System { return &sys{b: b, now: world.StartTime} }

func (s *sys) Clone() bfs.System {
	n := *s
	if s.c != nil {
		n.c = s.c.Clone()
	}
	return &n
}

func rewardLists(am []int64) []string {
	var out []string
	coin := func(d string, a int64) string { return fmt.Sprintf(`{"denom":"%s","amount":"%d"}`, d, a) }
	for _, x := range am {
		out = append(out, "["+coin(dA, x)+"]")
	}
	for _, x := range am {
		out = append(out, "["+coin(dB, x)+"]")
	}
	for _, x := range am {
		for _, y := range am {
			out = append(out, "["+coin(dA, x)+","+coin(dB, y)+"]")
		}
	}
	for _, x := range am {
		for _, y := range am {
			out = append(out, "["+coin(dB, y)+","+coin(dA, x)+"]") // unsorted
		}
	}
	for _, x := range am {
		for _, y := range am {
			out = append(out, "["+coin(dA, x)+","+coin(dA, y)+"]") // duplicate denomination
		}
	}
	// three entries with a denomination repeated non-adjacently
	for _, x := range am {
		for _, y := range am {
			out = append(out, "["+coin(dA, x)+","+coin(dB, y)+","+coin(dA, x)+"]", "["+coin(dB, y)+","+coin(dA, x)+","+coin(dB, y)+"]")
		}
	}
	// values the module's validation must refuse (negative amount, empty list, empty denom)
	out = append(out, `[{"denom":"aaa","amount":"-1"}]`, `[]`, `[{"denom":"","amount":"1"}]`)
	return out
}

func (s *sys) Ops() []string {
	if s.dead != "" {
		return nil
	}
	if !s.inited {
		var out []string
		for _, a := range s.b.Pools {
			for _, b := range s.b.Pools {
				out = append(out, fmt.Sprintf("init %d %d", a, b))
				if a+b > 0 && (a == 0 || b == 0 || a == b) {
					out = append(out, fmt.Sprintf("init %d %d enabled", a, b)) // vesting already enabled in genesis: the very first block releases
				}
			}
		}
		return out
	}
	out := []string{"block", "enable true", "enable false"}
	for _, r := range rewardLists(s.b.Amounts) {
		out = append(out, "reward "+r)
	}
	return out
}

func (s *sys) params() rvtypes.Params { return s.c.App.RVestingKeeper.GetParams(s.c.ReadCtx()) }

func (s *sys) balances() map[string]sdk.Coins {
	out := map[string]sdk.Coins{}
	s.c.App.BankKeeper.IterateAllBalances(s.c.ReadCtx(), func(addr sdk.AccAddress, coin sdk.Coin) bool {
		out[fold(addr.String())] = out[fold(addr.String())].Add(coin)
		return false
	})
	return out
}

// fold: the fee collector is swept into the distribution account by the distribution module's BeginBlock (from height 2
// on); where the released coins sit between the two is not the vesting module's business — they are one account here.
func fold(addr string) string {
	if addr == distAddr {
		return collAddr
	}
	return addr
}

func (s *sys) supply() sdk.Coins {
	var out sdk.Coins
	s.c.App.BankKeeper.IterateTotalSupply(s.c.ReadCtx(), func(c sdk.Coin) bool { out = out.Add(c); return false })
	return out
}

var (
	poolAddr = authtypes.NewModuleAddress(rvtypes.ModuleName).String()
	collAddr = authtypes.NewModuleAddress(authtypes.FeeCollectorName).String()
	distAddr = authtypes.NewModuleAddress(distrtypes.ModuleName).String()
)

// expected movement from the statement; ambiguous=true when a denomination is listed twice.
func expected(p rvtypes.Params, pool sdk.Coins) (move sdk.Coins, ambiguous bool) {
	if !p.EnableVesting {
		return sdk.NewCoins(), false
	}
	seen := map[string]bool{}
	move = sdk.NewCoins()
	for _, r := range p.PerBlockReward {
		if seen[r.Denom] {
			ambiguous = true
		}
		seen[r.Denom] = true
	}
	if ambiguous {
		return nil, true
	}
	for _, r := range p.PerBlockReward {
		rem := pool.AmountOf(r.Denom)
		m := r.Amount
		if rem.LT(m) {
			m = rem
		}
		if m.IsPositive() {
			move = move.Add(sdk.NewCoin(r.Denom, m))
		}
	}
	return move, false
}

func diff(before, after map[string]sdk.Coins) map[string]string {
	out := map[string]string{}
	keys := map[string]bool{}
	for k := range before {
		keys[k] = true
	}
	for k := range after {
		keys[k] = true
	}
	for k := range keys {
		b, a := before[k], after[k]
		if !b.IsEqual(a) {
			d, neg := a.SafeSub(b)
			_ = neg
			out[k] = d.String()
		}
	}
	return out
}

func fmtDiff(d map[string]string) string {
	var ks []string
	for k := range d {
		ks = append(ks, k)
	}
	sort.Strings(ks)
	var sb strings.Builder
	for _, k := range ks {
		name := k
		switch k {
		case poolAddr:
			name = "pool"
		case collAddr:
			name = "collector+distribution"
		}
		fmt.Fprintf(&sb, "%s:%s;", name, d[k])
	}
	return sb.String()
}

func wantDiff(move sdk.Coins, to string) string {
	if move.IsZero() {
		return ""
	}
	neg := ""
	for i, c := range move {
		if i > 0 {
			neg += ","
		}
		neg += "-" + c.String()
	}
	d := map[string]string{poolAddr: neg, to: move.String()}
	return fmtDiff(d)
}

func (s *sys) Apply(op string) (obs, class string, viols []bfs.Viol) {
	f := strings.SplitN(op, " ", 2)
	if f[0] == "init" {
		var a, b int64
		fmt.Sscanf(f[1], "%d %d", &a, &b)
		genesisEnabled := strings.HasSuffix(f[1], "enabled")
		funder := world.NewAccount("funder")
		init := sdk.NewCoins()
		if a > 0 {
			init = init.Add(sdk.NewInt64Coin(dA, a))
		}
		if b > 0 {
			init = init.Add(sdk.NewInt64Coin(dB, b))
		}
		s.c = world.NewChain("teleport_9000-10", s.now, world.Options{
			Accounts:        []string{"funder", "u1"},
			NoGenesisCommit: true, // the first block of the search is height 1
			ExtraCoins:      map[string]sdk.Coins{"funder": sdk.NewCoins(sdk.NewInt64Coin(dA, 9), sdk.NewInt64Coin(dB, 9)), "u1": sdk.NewCoins(sdk.NewInt64Coin(dA, 7))},
			GenesisMod: func(cdc codec.Codec, gs map[string]json.RawMessage) {
				g := rvtypes.DefaultGenesisState()
				g.Params.PerBlockReward = sdk.NewCoins(sdk.NewInt64Coin(dA, 1))
				g.Params.EnableVesting = genesisEnabled
				if !init.IsZero() {
					g.From = funder.Acc.String()
					g.InitReward = init
				}
				gs[rvtypes.ModuleName] = cdc.MustMarshalJSON(g)
			},
		})
		s.inited = true
		s.mp = rvtypes.DefaultGenesisState().Params
		s.mp.PerBlockReward = sdk.NewCoins(sdk.NewInt64Coin(dA, 1))
		s.mp.EnableVesting = genesisEnabled
		// block 1 (the chain was not committed after InitChain, as on a real network): with vesting enabled in genesis the
		// very first block already releases min(reward, pool)
		s.now = s.now.Add(world.BlockStep)
		s.c.Begin(s.now)
		s.c.End()
		move, _ := expected(s.mp, init)
		wantPool := init.Sub(move)
		gotPool := s.c.App.BankKeeper.GetAllBalances(s.c.ReadCtx(), authtypes.NewModuleAddress(rvtypes.ModuleName))
		if !gotPool.IsEqual(wantPool) {
			return "init", "init", []bfs.Viol{{Sig: "first-block-moves-wrong-amount", Detail: fmt.Sprintf("genesis %s with pool %s: after block 1 the pool holds %s, the statement requires %s", s.mp.String(), init, gotPool, wantPool)}}
		}
		if got := s.params(); got.String() != s.mp.String() {
			return "init", "init", []bfs.Viol{{Sig: "genesis-parameters-not-in-force", Detail: fmt.Sprintf("genesis set %s, the module reads %s", s.mp.String(), got.String())}}
		}
		return "init", "init", nil
	}

	// direct call of the real BeginBlocker on a throw-away context: collector must gain exactly the expected amount
	p := s.mp
	before := s.balances()
	supBefore := s.supply()
	pool := before[poolAddr]
	move, ambiguous := expected(p, pool)
	{
		ctx := s.c.ReadCtx()
		var pan interface{}
		func() {
			defer func() { pan = recover() }()
			rvesting.BeginBlocker(ctx, s.c.App.RVestingKeeper)
		}()
		if pan == nil {
			after := map[string]sdk.Coins{}
			s.c.App.BankKeeper.IterateAllBalances(ctx, func(addr sdk.AccAddress, coin sdk.Coin) bool {
				after[fold(addr.String())] = after[fold(addr.String())].Add(coin)
				return false
			})
			got := fmtDiff(diff(before, after))
			if !ambiguous {
				if want := wantDiff(move, collAddr); got != want {
					viols = append(viols, bfs.Viol{Sig: "begin-blocker-moves-wrong-amount", Detail: fmt.Sprintf("params=%s pool=%s: BeginBlocker moved %q, statement requires %q", p.String(), pool, got, want)})
				}
			}
		}
	}

	// the real block
	s.now = s.now.Add(world.BlockStep)
	var handlerErr string
	var pan interface{}
	func() {
		defer func() { pan = recover() }()
		s.c.Begin(s.now)
		switch f[0] {
		case "block":
		case "enable", "reward":
			key := "EnableVesting"
			if f[0] == "reward" {
				key = "PerBlockReward"
			}
			prop := paramproposal.NewParameterChangeProposal("t", "d", []paramproposal.ParamChange{{Subspace: rvtypes.ModuleName, Key: key, Value: f[1]}})
			h := params.NewParamChangeProposalHandler(s.c.App.ParamsKeeper)
			ctx := s.c.Ctx()
			cctx, write := ctx.CacheContext() // exactly what gov.EndBlocker does
			if err := h(cctx, prop); err != nil {
				handlerErr = "rejected"
			} else {
				write()
				if f[0] == "enable" {
					s.mp.EnableVesting = f[1] == "true"
				} else {
					var cs []sdk.Coin
					if jerr := json.Unmarshal([]byte(f[1]), &cs); jerr != nil {
						panic(jerr)
					}
					s.mp.PerBlockReward = cs
				}
			}
		}
		s.c.End()
	}()
	if pan != nil {
		s.dead = fmt.Sprint(pan)
		// under every reading of a list that repeats a denomination the block must move min(..) of it; a panic moves nothing and halts the chain
		viols = append(viols, bfs.Viol{Sig: "block-panics", Detail: fmt.Sprintf("params=%s pool=%s op=%s: block processing panicked: %v", p.String(), pool, op, pan)})
		return "panic", "panic", viols
	}
	after := s.balances()
	supAfter := s.supply()
	got := fmtDiff(diff(before, after))
	if !supBefore.IsEqual(supAfter) {
		viols = append(viols, bfs.Viol{Sig: "supply-changed", Detail: fmt.Sprintf("params=%s pool=%s op=%s: total supply %s -> %s", p.String(), pool, op, supBefore, supAfter)})
	}
	for _, c := range after[poolAddr] {
		if c.IsNegative() {
			viols = append(viols, bfs.Viol{Sig: "pool-negative", Detail: c.String()})
		}
	}
	if !ambiguous {
		if want := wantDiff(move, collAddr); got != want {
			viols = append(viols, bfs.Viol{Sig: "block-moves-wrong-amount", Detail: fmt.Sprintf("params=%s pool=%s op=%s: block moved %q, statement requires %q (fee collector and distribution account taken together)", p.String(), pool, op, got, want)})
		}
		if p.EnableVesting {
			if move.IsZero() {
				class = "enabled, nothing moves (pool dry or zero reward)"
			} else if move.IsEqual(sdk.NewCoins(p.PerBlockReward...)) {
				class = "enabled, full reward"
			} else {
				class = "enabled, capped by remaining pool"
			}
		} else {
			class = "disabled, nothing moves"
		}
	} else {
		// only the unambiguous clauses: nothing beyond the pool leaves it, nobody else changes
		d := diff(before, after)
		for k := range d {
			if k != poolAddr && k != collAddr {
				viols = append(viols, bfs.Viol{Sig: "block-touches-other-account", Detail: fmt.Sprintf("params=%s: %s", p.String(), got)})
			}
		}
		class = "duplicate denominations (only supply/pool clauses demanded)"
	}
	if handlerErr != "" {
		class += " | param change refused"
	} else if f[0] != "block" {
		class += " | param change accepted"
	}
	return got + "|" + handlerErr, class, viols
}

func (s *sys) Key() string {
	if s.dead != "" {
		return "dead:" + s.dead
	}
	if !s.inited {
		return "pre"
	}
	p := s.params()
	pool := s.c.App.BankKeeper.GetAllBalances(s.c.ReadCtx(), authtypes.NewModuleAddress(rvtypes.ModuleName))
	var r []string
	for _, c := range p.PerBlockReward {
		r = append(r, c.String())
	}
	return fmt.Sprintf("en=%v reward=%s pool=%s model=%s", p.EnableVesting, strings.Join(r, ","), pool, s.mp.String())
}

func (s *sys) Check() []bfs.Viol { return nil }

var _ = banktypes.ModuleName
