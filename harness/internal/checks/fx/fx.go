// Package fx holds fixtures shared by several checks: a chain whose BSC, ETH and TSS clients have been driven through
// creation proposals and a history of updates (validator-set switch, fork and branch switch, orphan, TSS updates).
package fx

import (
	"time"

	sdk "github.com/cosmos/cosmos-sdk/types"

	"github.com/ethereum/go-ethereum/common"
	ethtypes "github.com/ethereum/go-ethereum/core/types"

	bsctypes "github.com/teleport-network/teleport/x/xibc/clients/light-clients/bsc/types"
	ethclient "github.com/teleport-network/teleport/x/xibc/clients/light-clients/eth/types"
	tsstypes "github.com/teleport-network/teleport/x/xibc/clients/tss-client/types"
	xibcclient "github.com/teleport-network/teleport/x/xibc/core/client"
	clienttypes "github.com/teleport-network/teleport/x/xibc/core/client/types"
	"github.com/teleport-network/teleport/x/xibc/exported"

	"verif/internal/checks/c09"
	"verif/internal/checks/c10"
	"verif/internal/world"
)

func Proposal(c *world.Chain, w *world.World, name string, cs exported.ClientState, cons exported.ConsensusState) {
	w.Do(c, func(ctx sdk.Context) {
		p, err := clienttypes.NewCreateClientProposal("t", "d", name, cs, cons)
		if err != nil {
			panic(err)
		}
		cctx, write := ctx.CacheContext()
		if err := xibcclient.NewClientProposalHandler(c.App.XIBCKeeper.ClientKeeper)(cctx, p); err != nil {
			panic(err)
		}
		write()
	})
}

func Update(c *world.Chain, w *world.World, name string, hdr exported.Header, signer string) {
	msg, err := clienttypes.NewMsgUpdateClient(name, hdr, c.Accounts[signer].Acc)
	if err != nil {
		panic(err)
	}
	w.Block(c, c.CosmosTx(c.Accounts[signer], msg))
}

// clients: BSC header chain across an epoch with a set switch (the snapshot's map ranges), an ETH fork on chain id 4, TSS updates.
func Clients() (*world.World, *world.Chain) {
	w := world.NewWorld()
	w.Now = time.Unix(1_700_000_500, 0)
	c := w.Add("teleport_9000-10", world.Options{Accounts: []string{"r1", "tss"}})
	w.Block(c)
	w.Do(c, func(ctx sdk.Context) {
		for _, n := range []string{"bsc-cp", "eth-cp", "tss-cp"} {
			c.App.XIBCKeeper.ClientKeeper.RegisterRelayers(ctx, c.Accounts["r1"].Acc.String(), []string{"bsc-cp", "eth-cp", "tss-cp"}, []string{"a", "b", "c"})
			c.App.XIBCKeeper.ClientKeeper.RegisterRelayers(ctx, c.Accounts["tss"].Acc.String(), []string{"tss-cp"}, []string{"t"})
			// a registration that names chains more than once (stateless validation accepts it)
			c.App.XIBCKeeper.ClientKeeper.RegisterRelayers(ctx, world.NewAccount("dup-relayer").Acc.String(), []string{"eth-cp", "bsc-cp", "eth-cp", "tss-cp", "bsc-cp", "other-cp"}, []string{"a1", "b1", "a2", "t1", "b2", "o1"})
			_ = n
		}
	})
	// BSC: 3 validators, epoch 4, genesis announces a 2-validator list; 10 blocks
	set := []int{0, 1, 2}
	gen := c09.Build(c09.Spec{Number: 16, Signer: 0, Coinbase: -1, Diff: 2, List: []int{0, 1}})
	var vals [][]byte
	for _, i := range set {
		h := c09.Build(c09.Spec{Number: 1, Signer: i, Coinbase: -1, Diff: 1})
		vals = append(vals, h.Coinbase)
	}
	Proposal(c, w, "bsc-cp", bsctypes.NewClientState(*gen, c09.ChainID, 4, 3, vals, common.HexToAddress("0x20000001").Bytes(), 1_000_000_000), &bsctypes.ConsensusState{Timestamp: gen.Time, Height: gen.Height, Root: gen.Root})
	parent := gen
	for n := uint64(17); n <= 26; n++ {
		// try every key with both difficulties: exactly the eligible in-turn / out-of-turn ones are accepted, the rest rejected
		accepted := false
		for _, signer := range []int{0, 1, 2, 3} {
			for _, d := range []int64{2, 1} {
				var list []int
				if n%4 == 0 {
					list = []int{0, 1, 2}
				}
				h := c09.Build(c09.Spec{Parent: parent, Number: n, Signer: signer, Coinbase: -1, Diff: d, List: list})
				Update(c, w, "bsc-cp", h, "r1")
				cs, _ := c.App.XIBCKeeper.ClientKeeper.GetClientState(c.ReadCtx(), "bsc-cp")
				if cs.GetLatestHeight().GetRevisionHeight() == n && !accepted {
					accepted = true
					parent = h
				}
				if accepted {
					break
				}
			}
			if accepted {
				break
			}
		}
	}
	// ETH (chain id 4): a fork and a branch switch, an orphan
	hdr := map[string]*ethtypes.Header{}
	g := c10.EthHeader(nil, "G", nil)
	g.Time = uint64(w.Now.Unix()) - 5000
	hdr["G"] = g
	gp := c10.ToProto(g)
	Proposal(c, w, "eth-cp", &ethclient.ClientState{Header: *gp, ChainId: 4, ContractAddress: common.HexToAddress("0x20000001").Bytes(), TrustingPeriod: 10_000_000_000, BlockDelay: 1},
		&ethclient.ConsensusState{Timestamp: gp.Time, Height: gp.Height, Root: gp.Root})
	// (L4 follows its parent after more than 909 s: the difficulty calculation reaches its -99 clamp)
	for _, n := range [][2]string{{"A1", "G"}, {"B1", "G"}, {"A2", "A1"}, {"B2", "B1"}, {"A3", "A2"}, {"X9", "A7"}, {"L4", "A3"}, {"A5", "L4"}} {
		p, ok := hdr[n[1]]
		if !ok {
			h := c10.EthHeader(hdr["G"], n[0], nil)
			h.ParentHash = common.HexToHash("0x1234")
			Update(c, w, "eth-cp", c10.ToProto(h), "r1")
			continue
		}
		h := c10.EthHeader(p, n[0], nil)
		if n[0] == "L4" {
			h.Time = p.Time + 1000
		}
		hdr[n[0]] = h
		Update(c, w, "eth-cp", c10.ToProto(h), "r1")
	}
	// TSS
	Proposal(c, w, "tss-cp", &tsstypes.ClientState{TssAddress: c.Accounts["tss"].Acc.String(), Pubkey: []byte{1}, PartPubkeys: [][]byte{{2}}, Threshold: 1}, &tsstypes.ConsensusState{})
	Update(c, w, "tss-cp", &tsstypes.Header{TssAddress: c.Accounts["tss"].Acc.String(), Pubkey: []byte{3}, PartPubkeys: [][]byte{{4}}, Threshold: 2}, "tss")
	Update(c, w, "tss-cp", &tsstypes.Header{TssAddress: c.Accounts["tss"].Acc.String(), Pubkey: []byte{3}, PartPubkeys: [][]byte{{4}}, Threshold: 2}, "r1")
	// a header from the TSS account that names no TSS account (must be refused: the client state would not be importable)
	Update(c, w, "tss-cp", &tsstypes.Header{TssAddress: "", Pubkey: []byte{5}, PartPubkeys: [][]byte{{6}}, Threshold: 1}, "tss")
	return w, c
}

