package relay

import (
	"fmt"
	"math/big"
	"strings"

	sdk "github.com/cosmos/cosmos-sdk/types"

	"github.com/ethereum/go-ethereum/common"

	clienttypes "github.com/teleport-network/teleport/x/xibc/core/client/types"
	"github.com/teleport-network/teleport/x/xibc/core/host"
	packettypes "github.com/teleport-network/teleport/x/xibc/core/packet/types"

	"verif/internal/world"
)

// spec is a relay message under construction: the genuine message for a transfer plus mutations.
type spec struct {
	kind     string // "recv" | "ack"
	on       *world.Chain // chain the message is delivered to
	holder   *world.Chain // chain whose store is proven
	p        packettypes.Packet
	ack      packettypes.Acknowledgement
	ackRaw   []byte
	keyKind  string // which key the proof is generated for: "commit" | "ack"
	keySrc   string
	keyDst   string
	keySeq   uint64
	genH     int64 // height the proof is generated for (client's latest)
	stated   clienttypes.Height
	tamper   string
	signer   string
	rawExtra bool
}

// RecvMutations / AckMutations are the single-mutation alphabets (simplest first).
var packetMuts = []string{"p.seq+1", "p.seq-1", "p.sender", "p.amount+1", "p.receiver", "p.token", "p.calldata", "p.callback", "p.feeopt", "p.src=other", "p.src=unknown", "p.dst=other", "p.dst=unknown"}
var proofMuts = []string{"proof.empty", "proof.trunc", "proof.flip0", "proof.flipmid", "proof.fliplast", "proof.otherkind", "proof.otherseq", "proof.otherheight"}
var heightMuts = []string{"h+1", "h-1", "h.otherstored", "h.above", "h.rev"}
var signerMuts = []string{"signer.out"}
var ackMuts = []string{"a.code", "a.result", "a.message", "a.relayer", "a.feeopt"}

func mutationsFor(kind, set string) []string {
	var out []string
	out = append(out, packetMuts...)
	if kind == "ack" {
		out = append(out, ackMuts...)
	}
	out = append(out, proofMuts...)
	out = append(out, heightMuts...)
	if kind == "recv" {
		out = append(out, signerMuts...) // acks are not signer-restricted for proof-verifying clients
	}
	return out
}

// validTargets lists transfers for which a genuine relay message is acceptable right now.
func (s *Sys) validTargets() (recv, ack []*transfer) {
	for _, t := range s.tr {
		src, dst := s.w.Chains[t.Src], s.w.Chains[t.Dst]
		if src == nil || dst == nil {
			continue
		}
		if !t.Received && int64(dst.ClientLatest(t.Src).RevisionHeight) > t.CommitAt {
			recv = append(recv, t)
		}
		if t.Received && !t.Acked && t.AckBytes != nil && int64(src.ClientLatest(t.Dst).RevisionHeight) >= t.AckAt {
			ack = append(ack, t)
		}
	}
	return
}

func (s *Sys) attackOps() []string {
	var out []string
	recv, ack := s.validTargets()
	emit := func(kind string, ts []*transfer) {
		for _, t := range ts {
			ms := mutationsFor(kind, s.cfg.AttackSet)
			for _, m := range ms {
				out = append(out, fmt.Sprintf("atk %s %s %s", kind, t.ID, m))
			}
			if s.cfg.AttackSet == "pairs" {
				for i, m1 := range ms {
					for _, m2 := range ms[i+1:] {
						if strings.SplitN(m1, ".", 2)[0] == strings.SplitN(m2, ".", 2)[0] && strings.HasPrefix(m1, "proof") {
							continue // two tamperings of the same proof bytes: the second overrides the first
						}
						out = append(out, fmt.Sprintf("atk %s %s %s,%s", kind, t.ID, m1, m2))
					}
				}
			}
		}
	}
	emit("recv", recv)
	emit("ack", ack)
	return out
}

func (s *Sys) otherChain(not ...string) string {
	for _, n := range s.w.Order {
		skip := false
		for _, x := range not {
			if x == n {
				skip = true
			}
		}
		if !skip {
			return n
		}
	}
	return "nochain-77"
}

func (s *Sys) baseSpec(kind string, t *transfer) *spec {
	src, dst := s.w.Chains[t.Src], s.w.Chains[t.Dst]
	sp := &spec{kind: kind, signer: "r1"}
	must(sp.p.ABIDecode(t.Bytes))
	sp.keySrc, sp.keyDst, sp.keySeq = sp.p.SrcChain, sp.p.DstChain, sp.p.Sequence
	if kind == "recv" {
		sp.on, sp.holder, sp.keyKind = dst, src, "commit"
	} else {
		sp.on, sp.holder, sp.keyKind = src, dst, "ack"
		must(sp.ack.ABIDecode(t.AckBytes))
		sp.ackRaw = t.AckBytes
	}
	sp.genH = int64(sp.on.ClientLatest(sp.holder.Name).RevisionHeight)
	sp.stated = clienttypes.NewHeight(sp.holder.Revision(), uint64(sp.genH))
	return sp
}

func (s *Sys) mutate(sp *spec, m string) {
	switch m {
	case "p.seq+1":
		sp.p.Sequence++
	case "p.seq-1":
		sp.p.Sequence--
	case "p.sender":
		sp.p.Sender = strings.ToLower(sp.on.Accounts["out"].Eth.String())
	case "p.amount+1", "p.receiver", "p.token":
		var td packettypes.TransferData
		if td.ABIDecode(sp.p.TransferData) == nil {
			switch m {
			case "p.amount+1":
				a := new(big.Int).SetBytes(td.Amount)
				td.Amount = common.LeftPadBytes(a.Add(a, big.NewInt(1)).Bytes(), 32)
			case "p.receiver":
				td.Receiver = strings.ToLower(sp.on.Accounts["out"].Eth.String())
			case "p.token":
				td.Token = strings.ToLower(sp.on.Accounts["out"].Eth.String())
			}
			sp.p.TransferData, _ = td.ABIPack()
		}
	case "p.calldata":
		cd := packettypes.CallData{ContractAddress: strings.ToLower(sp.on.Accounts["out"].Eth.String()), CallData: []byte{1}}
		if len(sp.p.CallData) > 0 {
			sp.p.CallData = nil
		} else {
			sp.p.CallData, _ = cd.ABIPack()
		}
	case "p.callback":
		sp.p.CallbackAddress = strings.ToLower(sp.on.Accounts["out"].Eth.String())
	case "p.feeopt":
		sp.p.FeeOption++
	case "p.src=other":
		sp.p.SrcChain = s.otherChain(sp.p.SrcChain, sp.p.DstChain)
	case "p.src=unknown":
		sp.p.SrcChain = "nochain-77"
	case "p.dst=other":
		sp.p.DstChain = s.otherChain(sp.p.SrcChain, sp.p.DstChain)
	case "p.dst=unknown":
		sp.p.DstChain = "nochain-77"
	case "a.code":
		if sp.ack.Code == 0 {
			sp.ack.Code = 1
		} else {
			sp.ack.Code = 0
		}
		sp.ackRaw = nil
	case "a.result":
		sp.ack.Result = append(append([]byte{}, sp.ack.Result...), 1)
		sp.ackRaw = nil
	case "a.message":
		sp.ack.Message += "x"
		sp.ackRaw = nil
	case "a.relayer":
		sp.ack.Relayer = sp.on.Accounts["out"].Acc.String()
		sp.ackRaw = nil
	case "a.feeopt":
		sp.ack.FeeOption++
		sp.ackRaw = nil
	case "proof.empty", "proof.trunc", "proof.flip0", "proof.flipmid", "proof.fliplast":
		sp.tamper = m
	case "proof.otherkind":
		if sp.keyKind == "commit" {
			sp.keyKind = "ack"
		} else {
			sp.keyKind = "commit"
		}
	case "proof.otherseq":
		sp.keySeq++
	case "proof.otherheight":
		// genuine proof generated for another stored height, still stated under the original height
		if o := s.otherStoredHeight(sp.on, sp.holder, sp.genH); o != 0 {
			sp.genH = o
		} else {
			sp.genH--
		}
	case "h+1":
		sp.stated.RevisionHeight++
	case "h-1":
		sp.stated.RevisionHeight--
	case "h.otherstored":
		if o := s.otherStoredHeight(sp.on, sp.holder, int64(sp.stated.RevisionHeight)); o != 0 {
			sp.stated.RevisionHeight = uint64(o)
		} else {
			sp.stated.RevisionHeight -= 2
		}
	case "h.above":
		sp.stated.RevisionHeight += 1000
	case "h.rev":
		sp.stated.RevisionNumber++
	case "signer.out":
		sp.signer = "out"
	default:
		panic("unknown mutation " + m)
	}
}

func (s *Sys) otherStoredHeight(on, of *world.Chain, not int64) int64 {
	var best int64
	on.App.XIBCKeeper.ClientKeeper.IterateConsensusStates(on.ReadCtx(), func(name string, cs clienttypes.ConsensusStateWithHeight) bool {
		h := int64(cs.Height.RevisionHeight)
		if name == of.Name && h != not && h > best {
			best = h
		}
		return false
	})
	return best
}

func tamperProof(bz []byte, how string) []byte {
	out := append([]byte{}, bz...)
	switch how {
	case "proof.empty":
		return nil
	case "proof.trunc":
		return out[:len(out)/2]
	case "proof.flip0":
		if len(out) > 0 {
			out[0] ^= 1
		}
	case "proof.flipmid":
		if len(out) > 0 {
			out[len(out)/2] ^= 1
		}
	case "proof.fliplast":
		if len(out) > 0 {
			out[len(out)-1] ^= 1
		}
	}
	return out
}

func (s *Sys) build(sp *spec) (sdk.Msg, world.Account) {
	var key []byte
	if sp.keyKind == "commit" {
		key = host.PacketCommitmentKey(sp.keySrc, sp.keyDst, sp.keySeq)
	} else {
		key = host.PacketAcknowledgementKey(sp.keySrc, sp.keyDst, sp.keySeq)
	}
	proof, _, _ := sp.holder.QueryProof(key, sp.genH)
	if sp.tamper != "" {
		proof = tamperProof(proof, sp.tamper)
	}
	signer := sp.on.Accounts[sp.signer]
	pb, err := sp.p.ABIPack()
	must(err)
	if sp.kind == "recv" {
		return packettypes.NewMsgRecvPacket(pb, proof, sp.stated, signer.Acc), signer
	}
	ab := sp.ackRaw
	if ab == nil {
		ab, err = sp.ack.ABIPack()
		must(err)
	}
	return packettypes.NewMsgAcknowledgement(pb, ab, proof, sp.stated, signer.Acc), signer
}

// stepAttack delivers one mutated relay message; the ordinary receive/ack monitors (ground truth included) decide it.
func (s *Sys) stepAttack(f []string, add addFn) (string, string) {
	kind, id, muts := f[0], f[1], strings.Split(f[2], ",")
	t := s.find(id)
	sp := s.baseSpec(kind, t)
	for _, m := range muts {
		s.mutate(sp, m)
	}
	msg, signer := s.build(sp)
	label := "atk " + kind + " " + strings.Join(mutClass(muts), ",")
	what := id + " mutated " + f[2]
	if err := msg.ValidateBasic(); err != nil {
		// refused at submission (stateless validation): nothing reaches the state machine
		return "invalid-basic", label + " refused-stateless"
	}
	if kind == "recv" {
		return s.deliverRecv(sp.on, signer, []sdk.Msg{msg}, false, label, what, add)
	}
	return s.deliverAck(sp.on, signer, []sdk.Msg{msg}, label, what, add)
}

func mutClass(ms []string) []string {
	var out []string
	for _, m := range ms {
		out = append(out, strings.SplitN(m, ".", 2)[0])
	}
	return out
}

