package relay

func (s *Sys) attackOps() []string                              { return nil }
func (s *Sys) stepAttack(f []string, add addFn) (string, string) { return "", "" }
func (s *Sys) setupTSS()                                        {}
