package relay

import (
	"bytes"
	"crypto/sha256"
	"encoding/json"
	"fmt"
	"github.com/ethereum/go-ethereum/common"
	"math/big"
	"os"
	"strings"

	sdk "github.com/cosmos/cosmos-sdk/types"

	"github.com/teleport-network/teleport/x/xibc/core/host"
	packettypes "github.com/teleport-network/teleport/x/xibc/core/packet/types"

	"verif/internal/world"
)

func tripleOf(bz []byte) (packettypes.Packet, string, bool) {
	var p packettypes.Packet
	if err := p.ABIDecode(bz); err != nil {
		return p, "", false
	}
	return p, fmt.Sprintf("%s/%s/%d", p.SrcChain, p.DstChain, p.Sequence), true
}

// byTriple finds the ledger entry of a (src,dst,seq) triple.
func (s *Sys) byTriple(tr string) *transfer {
	for _, t := range s.tr {
		if _, id, ok := tripleOf(t.Bytes); ok && id == tr {
			return t
		}
	}
	return nil
}

func (s *Sys) stepRecv(id, form string, add addFn) (string, string) {
	t := s.find(id)
	msgs, signer, dst, twoTx := s.recvMsg(t, form)
	return s.deliverRecv(dst, signer, msgs, twoTx, "recv "+form, id+" "+form, add)
}

// deliverRecv delivers one or two transactions of MsgRecvPacket on chain dst and runs every receive monitor.
func (s *Sys) deliverRecv(dst *world.Chain, signer world.Account, msgs []sdk.Msg, twoTx bool, class, what string, add addFn) (string, string) {
	var txs [][]byte
	if twoTx {
		ctx := dst.ReadCtx()
		acc := dst.App.AccountKeeper.GetAccount(ctx, signer.Acc)
		txs = append(txs, dst.CosmosTxSeq(signer, acc.GetAccountNumber(), acc.GetSequence(), msgs...))
		txs = append(txs, dst.CosmosTxSeq(signer, acc.GetAccountNumber(), acc.GetSequence()+1, msgs...))
	} else {
		txs = append(txs, dst.CosmosTx(signer, msgs...))
	}
	dst.Begin(s.w.Tick())
	var obs []string
	for _, tx := range txs {
		// which triples does this tx carry, and is any of them already received (or repeated)?
		mustReject := false
		seen := map[string]bool{}
		for _, m := range msgs {
			_, tr, ok := tripleOf(m.(*packettypes.MsgRecvPacket).Packet)
			if !ok {
				continue
			}
			if seen[tr] {
				mustReject = true
			}
			seen[tr] = true
			if lt := s.byTriple(tr); lt != nil && lt.Received {
				mustReject = true
			}
		}
		pre := dumpAll(dst)
		locksPre := s.locks(dst)
		r := dst.Deliver(tx)
		post := dumpAll(dst)
		s.globalMonitors(dst, pre, post, nil, add, "recv")
		d := diffAll(pre, post)
		obs = append(obs, fmt.Sprint(r.Code))
		if r.Code != 0 {
			class += " rejected"
			if len(d) > 0 {
				add("C01", "rejected-receive-changed-state", fmt.Sprintf("recv %s on %s rejected (%s) but changed %v", what, short[dst.Name], r.Log, d))
			}
			continue
		}
		class += " accepted"
		if mustReject {
			add("C01", "duplicate-receive-accepted", fmt.Sprintf("recv %s on %s accepted although the triple was already received (or is repeated inside the tx); changed %v", what, short[dst.Name], d))
		}
		nested := s.observeSends(dst, pre, post, r, add, "recv "+what)
		s.lockMonitor(dst, locksPre, nested, add, "recv "+what)
		if len(nested) > 0 {
			class += fmt.Sprintf(" nested-sends=%d", len(nested))
			for _, x := range nested {
				x.Nested = true
			}
		}
		var wantAcks []string
		ackEvents := world.TypedEventAttr(r, "xibc.core.packet.v1.EventWriteAck", "ack")
		for i, m := range msgs {
			rm := m.(*packettypes.MsgRecvPacket)
			s.groundTruthRecv(dst, rm, add, what)
			p, tr, ok := tripleOf(rm.Packet)
			if !ok {
				continue
			}
			t := s.byTriple(tr)
			if t == nil {
				add("C02", "receive-accepted-for-packet-never-sent", fmt.Sprintf("recv %s on %s accepted triple %s which no chain ever sent", what, short[dst.Name], tr))
				continue
			}
			if !samePacket(rm.Packet, t.Bytes) {
				add("C02", "receive-accepted-for-a-packet-differing-from-the-committed-one", fmt.Sprintf("recv %s on %s: the accepted message carries %s, the source committed %s", what, short[dst.Name], fieldsOf(indepPacket, rm.Packet), fieldsOf(indepPacket, t.Bytes)))
				add("C01", "receive-accepted-for-a-packet-differing-from-the-committed-one", fmt.Sprintf("recv %s on %s: the accepted message carries %s, the source committed %s", what, short[dst.Name], fieldsOf(indepPacket, rm.Packet), fieldsOf(indepPacket, t.Bytes)))
			}
			t.Received = true
			t.AckAt = dst.Height() + 1
			rk := string(host.PacketReceiptKey(p.SrcChain, p.DstChain, p.Sequence))
			if _, ok := post[host.StoreKey][rk]; !ok {
				add("C01", "accepted-receive-without-receipt", fmt.Sprintf("recv %s accepted but no receipt %s", what, rk))
			}
			if p.DstChain != dst.Name {
				continue // relay chain: no acknowledgement of its own
			}
			ackKey := string(host.PacketAcknowledgementKey(p.SrcChain, p.DstChain, p.Sequence))
			wantAcks = append(wantAcks, ackKey)
			if i < len(ackEvents) {
				var b64 string
				json.Unmarshal([]byte(ackEvents[i]), &b64)
				raw, _ := decodeB64(b64)
				t.AckBytes = raw
				hh := sha256.Sum256(raw)
				if post[host.StoreKey][ackKey] != string(hh[:]) {
					add("C05", "stored-ack-not-hash-of-announced-ack", fmt.Sprintf("recv %s: stored %x, sha256(event ack)=%x", what, post[host.StoreKey][ackKey], hh))
				}
				var a packettypes.Acknowledgement
				if err := a.ABIDecode(raw); err == nil {
					t.AckCode = a.Code
					if want := s.registeredCounterpartyAddress(dst, signer, p.SrcChain); a.Relayer != want {
						add("C06", "ack-relayer-not-registered-counterparty-address", fmt.Sprintf("recv %s by %s: ack.Relayer=%q want %q", what, signer.Name, a.Relayer, want))
					}
					if a.Code == 0 && (strings.Contains(t.Kind, "+callrevert") || strings.Contains(t.Kind, "+hookfail") || strings.Contains(t.Kind, "+agentbad")) {
						add("C05", "failed-callback-acknowledged-as-success", fmt.Sprintf("recv %s (%s) on %s: the packet's call fails by construction (reverting call / failing post-transaction hook / nested send to an unknown chain) but the stored acknowledgement reports success", t.ID, t.Kind, short[dst.Name]))
					}
					if a.Code == 0 && strings.Contains(t.Kind, "+hookfail") {
						add("C17", "remote-staking-call-whose-native-action-fails-acknowledged-as-success", fmt.Sprintf("recv %s (%s) on %s: the packet's call data calls Staking.delegate with a malformed validator; the native action fails, yet the acknowledgement reports success (the EVM side of the call was committed)", t.ID, t.Kind, short[dst.Name]))
					}
					if a.Code == 0 {
						class += " exec-ok"
					} else {
						class += " exec-failed"
						if len(nested) == 0 {
							s.checkNoDestinationEffect(dst, t, pre, post, add)
						}
					}
				}
			} else {
				add("C05", "receive-ack-event-count", fmt.Sprintf("recv %s: %d EventWriteAck for %d messages", what, len(ackEvents), len(msgs)))
			}
		}
		// C05a: exactly the acknowledgements of the received triples are new
		var newAcks []string
		for _, x := range d {
			if strings.HasPrefix(x, host.StoreKey+":+"+host.KeyPacketAckPrefix+"/") {
				newAcks = append(newAcks, strings.TrimPrefix(x, host.StoreKey+":+"))
			}
		}
		if strings.Join(newAcks, "|") != strings.Join(sortedCopy(wantAcks), "|") {
			add("C05", "receive-did-not-write-exactly-one-ack", fmt.Sprintf("recv %s on %s wrote acks %v, want exactly %v", what, short[dst.Name], newAcks, wantAcks))
		}
	}
	dst.End()
	return "recv " + strings.Join(obs, ","), class
}

// relayerBalances sums the fee-token balances of every account that may relay.
func (s *Sys) relayerBalances(c *world.Chain, t *transfer) int64 {
	n := s.units(s.tokenOf(t), s.feeBalance(c, t, c.Accounts["r1"])) + s.units(s.tokenOf(t), s.feeBalance(c, t, c.Accounts["r2"])) + s.units(s.tokenOf(t), s.feeBalance(c, t, c.Accounts["r3"])) + s.units(s.tokenOf(t), s.feeBalance(c, t, c.Accounts["r4"])) +
		s.units(s.tokenOf(t), s.feeBalance(c, t, c.Accounts["r6"])) + s.units(s.tokenOf(t), s.feeBalance(c, t, c.Accounts["r7"]))
	if s.cfg.TSS {
		n += s.units(s.tokenOf(t), s.feeBalance(c, t, c.Accounts["u2"]))
	}
	return n
}

func sortedCopy(in []string) []string {
	out := append([]string{}, in...)
	for i := range out {
		for j := i + 1; j < len(out); j++ {
			if out[j] < out[i] {
				out[i], out[j] = out[j], out[i]
			}
		}
	}
	return out
}

// registeredCounterpartyAddress is what governance registered for (relayer, chain) on c.
func (s *Sys) registeredCounterpartyAddress(c *world.Chain, signer world.Account, chain string) string {
	ir, ok := c.App.XIBCKeeper.ClientKeeper.GetRelayer(c.ReadCtx(), signer.Acc.String())
	if !ok {
		return "(unregistered)"
	}
	for i, ch := range ir.Chains {
		if ch == chain {
			return ir.Addresses[i]
		}
	}
	return "(not registered for " + chain + ")"
}

func (s *Sys) stepAck(id, form string, add addFn) (string, string) {
	t := s.find(id)
	msg, signer, src := s.ackMsg(t, form)
	msgs := []sdk.Msg{msg}
	if form == "dup2" {
		msgs = append(msgs, msg)
	}
	return s.deliverAck(src, signer, msgs, "ack "+form, id+" "+form, add)
}

// deliverAck delivers one transaction of MsgAcknowledgement on chain src and runs every acknowledgement monitor.
func (s *Sys) deliverAck(src *world.Chain, signer world.Account, msgs []sdk.Msg, class, what string, add addFn) (string, string) {
	tx := src.CosmosTx(signer, msgs...)
	am := msgs[0].(*packettypes.MsgAcknowledgement)
	p, tr, ok := tripleOf(am.Packet)
	var t *transfer
	if ok {
		t = s.byTriple(tr)
	}
	ck := string(host.PacketCommitmentKey(p.SrcChain, p.DstChain, p.Sequence))
	var relayerBalPre, senderPre int64
	var statusPre uint8
	var x1Pre *big.Int
	var victimPre int64
	if t != nil && p.SrcChain == src.Name {
		if v := s.sharedVictim(src); v != "" {
			victimPre = s.units(s.tokenOf(t), s.feeBalance(src, t, src.Accounts[v]))
		}
		x1Pre = s.holdings(src, s.tokenOf(t), src.Accounts["x1"])
		relayerBalPre = s.relayerBalances(src, t)
		statusPre = src.AckStatus(p.DstChain, p.Sequence)
		senderPre = s.senderHoldings(src, t)
	}
	src.Begin(s.w.Tick())
	pre := dumpAll(src)
	r := src.Deliver(tx)
	post := dumpAll(src)
	allowed := map[string]bool{}
	if r.Code == 0 {
		allowed[ck] = true
	}
	s.globalMonitors(src, pre, post, allowed, add, "ack")
	src.End()
	d := diffAll(pre, post)
	if r.Code != 0 {
		class += " rejected"
		if len(d) > 0 {
			add("C05", "rejected-ack-changed-state", fmt.Sprintf("ack %s on %s rejected (%s) but changed %v", what, short[src.Name], r.Log, d))
		}
		if os.Getenv("VERIF_DEBUG") != "" {
			fmt.Println("DEBUG ack rejected:", r.Log)
		}
		return "ack rejected", class
	}
	class += " accepted"
	if t == nil {
		add("C02", "ack-accepted-for-packet-never-sent", fmt.Sprintf("ack %s accepted on %s for triple %s", what, short[src.Name], tr))
		return "ack accepted", class
	}
	if strings.Contains(t.Kind, "+cbfail") {
		calls := src.App.EvmKeeper.GetState(src.ReadCtx(), s.cb[short[src.Name]], common.Hash{})
		for _, prop := range []string{"C17", "C05", "C03"} {
			add(prop, "acknowledgement-accepted-although-the-native-action-of-its-callback-failed", fmt.Sprintf("ack %s on %s: the sender's callback contract calls Staking.delegate for a malformed validator (the native action cannot succeed); the transaction succeeded, the callback contract's call counter reads %s", what, short[src.Name], calls.Hex()))
		}
	}
	if t.Acked || len(msgs) > 1 {
		add("C05", "acknowledgement-processed-twice", fmt.Sprintf("ack %s accepted on %s although it was already processed (or repeated inside the tx)", what, short[src.Name]))
	}
	if !samePacket(am.Packet, t.Bytes) {
		add("C02", "ack-accepted-for-a-packet-differing-from-the-committed-one", fmt.Sprintf("ack %s on %s: the accepted message carries %s, this chain committed %s", what, short[src.Name], fieldsOf(indepPacket, am.Packet), fieldsOf(indepPacket, t.Bytes)))
		add("C05", "commitment-removed-by-ack-of-a-different-packet", fmt.Sprintf("ack %s on %s: the accepted message carries %s, this chain committed %s", what, short[src.Name], fieldsOf(indepPacket, am.Packet), fieldsOf(indepPacket, t.Bytes)))
	}
	if t.AckBytes != nil && fieldsOf(indepAck, am.Acknowledgement) != fieldsOf(indepAck, t.AckBytes) {
		add("C02", "ack-accepted-with-bytes-differing-from-the-stored-acknowledgement", fmt.Sprintf("ack %s on %s: message carries %s, the counterparty wrote %s", what, short[src.Name], fieldsOf(indepAck, am.Acknowledgement), fieldsOf(indepAck, t.AckBytes)))
		add("C05", "outcome-recorded-from-an-acknowledgement-the-destination-never-wrote", fmt.Sprintf("ack %s on %s: message carries %s, the counterparty wrote %s", what, short[src.Name], fieldsOf(indepAck, am.Acknowledgement), fieldsOf(indepAck, t.AckBytes)))
	}
	if t.AckBytes == nil {
		add("C05", "outcome-recorded-from-an-acknowledgement-the-destination-never-wrote", fmt.Sprintf("ack %s on %s: message carries %s, the counterparty has not written any acknowledgement for this packet", what, short[src.Name], fieldsOf(indepAck, am.Acknowledgement)))
	}
	// the commitment existed, matched exactly the message's packet, and is gone now
	canon, _ := p.ABIPack()
	hp := sha256.Sum256(canon)
	if pre[host.StoreKey][ck] != string(hp[:]) {
		add("C02", "ack-accepted-without-matching-commitment", fmt.Sprintf("ack %s: commitment before was %x, message packet hashes to %x", what, pre[host.StoreKey][ck], hp))
		add("C05", "commitment-removed-by-ack-of-a-different-packet", fmt.Sprintf("ack %s: commitment before was %x, message packet hashes to %x", what, pre[host.StoreKey][ck], hp))
	}
	if _, still := post[host.StoreKey][ck]; still {
		add("C05", "ack-did-not-remove-commitment", fmt.Sprintf("ack %s accepted, commitment still stored", what))
	}
	// ground truth: the counterparty really stores sha256(ack bytes) under the ack key at the proof height
	dst := s.w.Chains[p.DstChain]
	ha := sha256.Sum256(am.Acknowledgement)
	if dst == nil {
		add("C02", "ack-accepted-from-unknown-chain", what)
	} else if s.tss(src.Name, dst.Name) {
		if am.Signer != src.Accounts["u2"].Acc.String() {
			add("C06", "tss-secured-ack-accepted-from-another-signer", fmt.Sprintf("ack %s on %s signed by %s", what, short[src.Name], am.Signer))
		}
	} else {
		if early := s.beforeDelay(src, dst, am.ProofHeight); early != "" {
			for _, prop := range []string{"C05", "C02", "C03"} {
				add(prop, "acknowledgement-accepted-before-the-delay-period", fmt.Sprintf("ack %s on %s: %s", what, short[src.Name], early))
			}
		}
		ver := int64(am.ProofHeight.RevisionHeight) - 1
		truth := dst.StoreAt(host.PacketAcknowledgementKey(p.SrcChain, p.DstChain, p.Sequence), ver)
		if !bytes.Equal(truth, ha[:]) {
			add("C02", "ack-accepted-but-counterparty-never-stored-it", fmt.Sprintf("ack %s: counterparty stores %x at version %d, message carries hash %x", what, truth, ver, ha))
		}
		cs, ok := src.App.XIBCKeeper.ClientKeeper.GetClientConsensusState(src.ReadCtx(), p.DstChain, am.ProofHeight)
		if !ok || !bytes.Equal(cs.GetRoot(), dst.AppHashAfter[ver]) {
			add("C02", "ack-verified-against-foreign-root", fmt.Sprintf("ack %s: consensus state at %s missing or different from the counterparty's app hash", what, am.ProofHeight))
		}
	}
	var a packettypes.Acknowledgement
	must(a.ABIDecode(am.Acknowledgement))
	if p.SrcChain == src.Name {
		statusPost := src.AckStatus(p.DstChain, p.Sequence)
		wantStatus := uint8(1)
		if a.Code != 0 {
			wantStatus = 2
		}
		if statusPre != 0 || statusPost != wantStatus {
			add("C05", "ack-status-not-recorded-once", fmt.Sprintf("ack %s code %d: ackStatus %d -> %d, want 0 -> %d", what, a.Code, statusPre, statusPost, wantStatus))
		}
		if x1Post := s.holdings(src, s.tokenOf(t), src.Accounts["x1"]); x1Pre != nil && x1Post.Cmp(x1Pre) != 0 {
			add("C06", "fee-paid-to-a-relayer-registered-for-another-chain-only", fmt.Sprintf("ack %s on %s: account x1 (registered as relayer for chain elsewhere-1 only) holds %s after, %s before", what, short[src.Name], x1Post, x1Pre))
			add("C05", "fee-paid-to-a-relayer-registered-for-another-chain-only", fmt.Sprintf("ack %s on %s: account x1 (registered as relayer for chain elsewhere-1 only) holds %s after, %s before", what, short[src.Name], x1Post, x1Pre))
		}
		if v := s.sharedVictim(src); v != "" && strings.Contains(strings.ToLower(fieldsOf(indepAck, am.Acknowledgement)), sharedAddr) {
			if got := s.units(s.tokenOf(t), s.feeBalance(src, t, src.Accounts[v])) - victimPre; got != t.Fee {
				for _, prop := range []string{"C06", "C05"} {
					add(prop, "fee-not-paid-to-the-relayer-the-acknowledgement-names", fmt.Sprintf("ack %s on %s names %s, which %s registered for %s (r1 holds the same address for another chain only): %s gained %d, the fee was %d", what, short[src.Name], sharedAddr, v, short[p.DstChain], v, got, t.Fee))
				}
			}
		}
		relayerBalPost := s.relayerBalances(src, t)
		if relayerBalPost-relayerBalPre != t.Fee {
			add("C05", "relayer-fee-not-paid-exactly-once", fmt.Sprintf("ack %s: relayers gained %d, fee was %d", what, relayerBalPost-relayerBalPre, t.Fee))
		}
		senderPost := s.senderHoldings(src, t)
		wantRefund := int64(0)
		if a.Code != 0 {
			wantRefund = t.Amount
			class += " refund"
		} else {
			class += " delivered"
		}
		if !t.Nested && !strings.Contains(t.Kind, "+ctor") && senderPost-senderPre != wantRefund {
			add("C03", "refund-amount-wrong", fmt.Sprintf("ack %s (%s) code %d: sender holdings changed by %d, want %d", what, t.Kind, a.Code, senderPost-senderPre, wantRefund))
		}
	}
	t.Acked = true
	return "ack accepted", class
}

// locks reads outTokens for every known token and destination of c.
func (s *Sys) locks(c *world.Chain) map[string]int64 {
	out := map[string]int64{}
	for name, tk := range s.chainTokens(c.Name) {
		for _, d := range append(append([]string{}, s.w.Order...), "nochain-77") {
			if d != c.Name {
				out[name+"|"+d] = s.units(tk, c.OutTokens(tk, d))
			}
		}
	}
	return out
}

// lockMonitor (C04): tokens may become locked towards a destination only together with a commitment for that send.
func (s *Sys) lockMonitor(c *world.Chain, pre map[string]int64, sends []*transfer, add addFn, what string) {
	post := s.locks(c)
	for name, tk := range s.chainTokens(c.Name) {
		for _, d := range append(append([]string{}, s.w.Order...), "nochain-77") {
			if d == c.Name {
				continue
			}
			delta := post[name+"|"+d] - pre[name+"|"+d]
			if delta <= 0 {
				continue
			}
			var committed int64
			for _, t := range sends {
				if t.Dst == d && t.Token == tk {
					committed += t.Amount
				}
			}
			if committed != delta {
				add("C04", "tokens-locked-without-commitment", fmt.Sprintf("%s on %s: outTokens[%s][%s] grew by %d but the transaction committed sends of %d", what, short[c.Name], name, shortOr(d), delta, committed))
			}
		}
	}
}
