package relay

import (
	"fmt"

	"github.com/ethereum/go-ethereum/accounts/abi"
)

// Independent ABI view of packets and acknowledgements (the harness's own tuple definitions, go-ethereum's decoder):
// ground truth must not pass through the decoder under test.
var indepPacket, indepAck abi.Arguments

func init() {
	pt, err := abi.NewType("tuple", "", []abi.ArgumentMarshaling{
		{Name: "f0", Type: "string"}, {Name: "f1", Type: "string"}, {Name: "f2", Type: "uint64"}, {Name: "f3", Type: "string"},
		{Name: "f4", Type: "bytes"}, {Name: "f5", Type: "bytes"}, {Name: "f6", Type: "string"}, {Name: "f7", Type: "uint64"}})
	if err != nil {
		panic(err)
	}
	indepPacket = abi.Arguments{{Type: pt}}
	at, err := abi.NewType("tuple", "", []abi.ArgumentMarshaling{
		{Name: "f0", Type: "uint64"}, {Name: "f1", Type: "bytes"}, {Name: "f2", Type: "string"}, {Name: "f3", Type: "string"}, {Name: "f4", Type: "uint64"}})
	if err != nil {
		panic(err)
	}
	indepAck = abi.Arguments{{Type: at}}
}

// fieldsOf renders the decoded field values of packet (or acknowledgement) bytes; "" if they do not decode.
func fieldsOf(args abi.Arguments, bz []byte) string {
	v, err := args.Unpack(bz)
	if err != nil || len(v) != 1 {
		return ""
	}
	return fmt.Sprintf("%+v", v[0])
}

// samePacket reports whether two packet encodings carry the same field values.
func samePacket(a, b []byte) bool {
	fa, fb := fieldsOf(indepPacket, a), fieldsOf(indepPacket, b)
	return fa != "" && fa == fb
}
