// Package relay is the explicit-state model of XIBC relaying over real chains:
// two or three real applications joined by real tendermint light clients with
// real IAVL proofs. Every operation is one real block on one chain. Monitors
// (tagged with the property they decide) compare every transaction's effects
// with a small reference ledger.
package relay

import (
	"bytes"
	"crypto/sha256"
	"encoding/hex"
	"encoding/json"
	"fmt"
	upgradetypes "github.com/cosmos/cosmos-sdk/x/upgrade/types"
	"github.com/ethereum/go-ethereum/crypto"
	"github.com/teleport-network/teleport/x/xibc"
	xibctypes "github.com/teleport-network/teleport/x/xibc/types"
	tmtypes "github.com/tendermint/tendermint/types"
	"math/big"
	"os"
	"sort"
	"strings"

	sdk "github.com/cosmos/cosmos-sdk/types"
	banktypes "github.com/cosmos/cosmos-sdk/x/bank/types"

	"github.com/ethereum/go-ethereum/common"
	evmtypes "github.com/tharsis/ethermint/x/evm/types"

	"github.com/teleport-network/teleport/syscontracts"
	erc20contracts "github.com/teleport-network/teleport/syscontracts/erc20"
	stakingcontract "github.com/teleport-network/teleport/syscontracts/staking"
	agentcontract "github.com/teleport-network/teleport/syscontracts/xibc_agent"
	endpointcontract "github.com/teleport-network/teleport/syscontracts/xibc_endpoint"
	packetcontract "github.com/teleport-network/teleport/syscontracts/xibc_packet"
	aggregatetypes "github.com/teleport-network/teleport/x/aggregate/types"
	xibctmtypes "github.com/teleport-network/teleport/x/xibc/clients/light-clients/tendermint/types"
	tsstypes "github.com/teleport-network/teleport/x/xibc/clients/tss-client/types"
	clienttypes "github.com/teleport-network/teleport/x/xibc/core/client/types"
	"github.com/teleport-network/teleport/x/xibc/core/host"
	packettypes "github.com/teleport-network/teleport/x/xibc/core/packet/types"

	"verif/internal/bfs"
	"verif/internal/world"
)

// Chain names (revision numbers 10, 11, 12 as in the repository's fixture).
const (
	A = "teleport_9000-10"
	B = "teleport_9000-11"
	C = "teleport_9000-12"
)

var short = map[string]string{A: "A", B: "B", C: "C"}
var long = map[string]string{"A": A, "B": B, "C": C}

// Config is the alphabet and the bounds of one search.
type Config struct {
	Chains     int      // 2 or 3
	MaxSends   int      // number of sends in a history
	Sends      []string // send menu entries: "<src> <dst> <kind> <amount>"
	RecvForms  []string
	AckForms   []string
	Depth      int
	Attacks    bool // C02: mutation operations on currently valid relay messages
	AttackSet  string
	TimeDelay  uint64   // delay period (ns) of every tendermint client: a proof at a height is honoured only that long after the height's header was processed
	TraceScale uint8    // scale of the traces of bound ERC-20 tokens: each is registered with scale 0 first and re-registered (a governance correction) with this scale before any transfer
	Scale      *big.Int // raw amount of one unit of an ERC-20 (and of tokens bound to it); nil = 1. 2^64+1 makes every amount exceed 64 bits with non-zero low bits
	TSS        bool     // B's client of A is a TSS client
	Prop       string
}

var stores = []string{host.StoreKey, evmtypes.StoreKey, banktypes.StoreKey, aggregatetypes.StoreKey}

// transfer is the reference ledger entry of one send.
type transfer struct {
	ID       string
	Src, Dst string
	Kind     string
	Token    common.Address // token moved on the source chain (zero = native coin)
	Amount   int64
	Fee      int64
	Nested   bool // sent from inside another transaction (call data of a received packet)
	Bytes    []byte
	Received bool // accepted by Dst
	AckBytes []byte
	AckCode  uint64
	Acked    bool
	// provability bookkeeping (first client height at which the artefact became provable)
	CommitAt int64 // src height of the block containing the send
	AckAt    int64 // dst height of the block containing the receive
}

// Sys is one live world plus the reference ledger.
// emitter: LOG1 with topic = first calldata word and data = the rest (lets an ordinary contract emit a log that looks like
// the packet contract's PacketSent).
var emitterRuntime = common.FromHex("602036038060206000376000359060" + "00a100")

// callbackRuntime: whatever it is called with, the contract counts the call in slot 0 and then calls
// Staking.delegate("not-a-validator", 1): the EVM call succeeds, the native action behind it cannot; if the call itself
// fails the contract reverts.
func callbackRuntime() []byte {
	data, err := stakingcontract.StakingContract.ABI.Pack("delegate", "not-a-validator", big.NewInt(1))
	must(err)
	staking := common.HexToAddress(syscontracts.StakingContractAddress)
	code := []byte{0x60, 0x01, 0x60, 0x00, 0x54, 0x01, 0x60, 0x00, 0x55} // slot0++
	l := byte(len(data))
	// CODECOPY(0, off, len) — off patched below
	code = append(code, 0x60, l, 0x60, 0x00 /*off*/, 0x60, 0x00, 0x39)
	offAt := len(code) - 4
	// CALL(gas, staking, 0, 0, len, 0, 0)
	code = append(code, 0x60, 0x00, 0x60, 0x00, 0x60, l, 0x60, 0x00, 0x60, 0x00, 0x73)
	code = append(code, staking.Bytes()...)
	code = append(code, 0x5a, 0xf1, 0x15, 0x60, 0x00 /*revert label*/, 0x57, 0x00)
	labelAt := len(code) - 3
	code[labelAt] = byte(len(code))
	code = append(code, 0x5b, 0x60, 0x00, 0x60, 0x00, 0xfd)
	code[offAt] = byte(len(code))
	return append(code, data...)
}

type Sys struct {
	cfg  Config
	w    *world.World
	tr   []*transfer
	tok  map[string]common.Address // "A:erc20" origin token on A, "B:bound" bound token on B for A's erc20, "B:boundnative", ...
	emit map[string]common.Address // per chain: the log-emitting helper contract
	cb   map[string]common.Address // per chain: the callback contract (counts its calls in slot 0, then delegates to a malformed validator through the staking system contract)
	dead string
}

// New builds the initial world (setup is deterministic).
func New(cfg Config) *Sys {
	s := &Sys{cfg: cfg, w: world.NewWorld(), tok: map[string]common.Address{}, emit: map[string]common.Address{}, cb: map[string]common.Address{}}
	names := []string{A, B}
	if cfg.Chains == 3 {
		names = append(names, C)
	}
	accts := []string{"r1", "r2", "u1", "u2", "out", "r3", "r4", "x1", "r6", "r7"}
	for _, n := range names {
		s.w.Add(n, world.Options{Accounts: accts})
	}
	// every chain gets a first real block so that a signed header exists
	for _, n := range names {
		s.w.Block(s.w.Chains[n])
	}
	for _, n := range names {
		c := s.w.Chains[n]
		s.w.Do(c, func(ctx sdk.Context) {
			world.ChainNameSetup(c, ctx)
			for _, m := range names {
				if m == n {
					continue
				}
				if cfg.TSS && n == A && m == B {
					// A's client of B is a TSS client whose configured account is u2 (also a registered relayer)
					tcs := &tsstypes.ClientState{TssAddress: c.Accounts["u2"].Acc.String(), Pubkey: []byte{1}, PartPubkeys: [][]byte{{2}}, Threshold: 1}
					must(c.App.XIBCKeeper.ClientKeeper.CreateClient(ctx, m, tcs, &tsstypes.ConsensusState{}))
					world.RegisterRelayers(c, ctx, m, "u2")
				} else {
					world.CreateTMClientDelay(c, ctx, s.w.Chains[m], cfg.TimeDelay)
				}
				world.RegisterRelayers(c, ctx, m, "r1", "r2")
			}
			world.RegisterRelayersAs(c, ctx, "elsewhere-2", sharedAddr, "r1")
			// r3 relays too, but the address it registered here for a counterparty is one that nobody registered over there
			// for this chain: acknowledgements of packets it delivers name a fee recipient the source chain's registry
			// cannot resolve (the source chain must then refuse the acknowledgement, not process it half)
			{
				var chains, addrs []string
				for _, m := range names {
					if m != n {
						chains = append(chains, m)
						addrs = append(addrs, ghostAddr(n, m))
					}
				}
				c.App.XIBCKeeper.ClientKeeper.RegisterRelayers(ctx, c.Accounts["r3"].Acc.String(), chains, addrs)
				// r4 relays as well and left its address on the counterparties empty: acknowledgements of packets it
				// delivers carry an empty relayer field. x1 is a relayer for a chain that is none of the world's: whatever
				// an acknowledgement says, x1 is never the fee recipient of a packet of these paths
				if n == B {
					// (registered on chain B only: on the other chains nobody's address for B is the empty string)
					empty := make([]string, len(chains))
					c.App.XIBCKeeper.ClientKeeper.RegisterRelayers(ctx, c.Accounts["r4"].Acc.String(), chains, empty)
				}
				c.App.XIBCKeeper.ClientKeeper.RegisterRelayers(ctx, c.Accounts["x1"].Acc.String(), []string{"elsewhere-1"}, []string{strings.ToLower(c.Accounts["x1"].Eth.String())})
				// the "shared address" relayer v (whichever of r6, r7 sorts after r1 in the registry) is registered for every
				// counterparty under one address of its own; r1 — registered for the same chains under its usual address — also
				// holds exactly that address, but for a chain outside the world: an acknowledgement naming it means v, not r1
				if v := s.sharedVictim(c); v != "" {
					shared := make([]string, len(chains))
					for i := range shared {
						shared[i] = sharedAddr
					}
					c.App.XIBCKeeper.ClientKeeper.RegisterRelayers(ctx, c.Accounts[v].Acc.String(), chains, shared)
				}
			}
			u1 := c.Accounts["u1"]
			// origin ERC-20 of this chain (deployed by u1, who holds minter role) with balance for u1
			t := world.DeployERC20From(c, ctx, u1.Eth, "tok"+short[n])
			s.tok[short[n]+":erc20"] = t
			world.KeeperCall(c, ctx, erc20contracts.ERC20MinterBurnerDecimalsContract.ABI, u1.Eth, t, "mint", u1.Eth, s.rawCfg(10000))
			// the log-emitting helper (deployed by "out")
			{
				out := c.Accounts["out"].Eth
				rt := emitterRuntime
				n := byte(len(rt))
				init := append([]byte{0x60, n, 0x60, 0x0c, 0x60, 0x00, 0x39, 0x60, n, 0x60, 0x00, 0xf3}, rt...)
				addr := crypto.CreateAddress(out, c.App.EvmKeeper.GetNonce(ctx, out))
				if res, err := c.App.AggregateKeeper.CallEVMWithData(ctx, out, nil, init); err != nil || res.Failed() {
					panic(fmt.Sprint("emitter deployment failed: ", err))
				}
				s.emit[n2s(c.Name)] = addr
			}
			// the callback contract (deployed by "out")
			{
				out := c.Accounts["out"].Eth
				rt := callbackRuntime()
				n := byte(len(rt))
				init := append([]byte{0x60, n, 0x60, 0x0c, 0x60, 0x00, 0x39, 0x60, n, 0x60, 0x00, 0xf3}, rt...)
				addr := crypto.CreateAddress(out, c.App.EvmKeeper.GetNonce(ctx, out))
				if res, err := c.App.AggregateKeeper.CallEVMWithData(ctx, out, nil, init); err != nil || res.Failed() {
					panic(fmt.Sprint("callback contract deployment failed: ", err))
				}
				s.cb[n2s(c.Name)] = addr
			}
			world.KeeperCall(c, ctx, erc20contracts.ERC20MinterBurnerDecimalsContract.ABI, u1.Eth, t, "approve", endpointcontract.EndpointContractAddress, s.rawCfg(1000000))
		})
	}
	// bound tokens: on every chain one bound token per (other chain, {erc20, native})
	for _, n := range names {
		c := s.w.Chains[n]
		s.w.Do(c, func(ctx sdk.Context) {
			for _, m := range names {
				if m == n {
					continue
				}
				for _, what := range []string{"erc20", "native"} {
					bt := world.DeployERC20From(c, ctx, endpointcontract.EndpointContractAddress, "b"+short[m]+what)
					ori := "0x0000000000000000000000000000000000000000"
					if what == "erc20" {
						ori = strings.ToLower(s.tok[short[m]+":erc20"].String())
					}
					must(c.App.AggregateKeeper.RegisterERC20Trace(ctx, bt, ori, m, 0))
					if what == "erc20" && s.cfg.TraceScale != 0 {
						must(c.App.AggregateKeeper.RegisterERC20Trace(ctx, bt, ori, m, s.cfg.TraceScale))
					}
					world.KeeperCall(c, ctx, erc20contracts.ERC20MinterBurnerDecimalsContract.ABI, c.Accounts["u1"].Eth, bt, "approve", endpointcontract.EndpointContractAddress, s.rawCfg(1000000))
					s.tok[short[n]+":bound:"+short[m]+":"+what] = bt
				}
			}
		})
	}
	return s
}

// scaleOf: raw amount of one ledger unit of a token (ERC-20 origin tokens and the tokens bound to them are scaled).
func (s *Sys) scaleOf(tok common.Address) *big.Int {
	if (s.cfg.Scale != nil || s.cfg.TraceScale != 0) && tok != (common.Address{}) {
		for name, a := range s.tok {
			if a == tok && strings.HasSuffix(name, ":erc20") {
				f := big.NewInt(1)
				if s.cfg.Scale != nil {
					f.Set(s.cfg.Scale)
				}
				if strings.Contains(name, ":bound:") {
					// the destination mints 10^scale of the bound token per unit of the origin token
					f.Mul(f, new(big.Int).Exp(big.NewInt(10), big.NewInt(int64(s.cfg.TraceScale)), nil))
				}
				return f
			}
		}
	}
	return big.NewInt(1)
}

// raw converts ledger units of a token into its on-chain amount; units converts back (an amount that is not a whole
// number of units maps to a value no ledger sum can equal).
// rawCfg scales by the configured factor regardless of the token (fixture set-up of ERC-20 balances and allowances).
func (s *Sys) rawCfg(units int64) *big.Int {
	if s.cfg.Scale == nil {
		return big.NewInt(units)
	}
	return new(big.Int).Mul(big.NewInt(units), s.cfg.Scale)
}

func (s *Sys) raw(tok common.Address, units int64) *big.Int {
	return new(big.Int).Mul(big.NewInt(units), s.scaleOf(tok))
}

func (s *Sys) units(tok common.Address, v *big.Int) int64 {
	q, r := new(big.Int).QuoRem(v, s.scaleOf(tok), new(big.Int))
	if r.Sign() != 0 || !q.IsInt64() {
		return -7777777
	}
	return q.Int64()
}

// sharedAddr is an address two relayers hold, each for another chain.
const sharedAddr = "0x5aa5000000000000000000000000000000005aa5"

// sharedVictim names the account (r6 or r7) that plays the relayer registered under sharedAddr: one whose registry entry
// sorts after r1's (the registry is walked in key order); "" if neither does.
func (s *Sys) sharedVictim(c *world.Chain) string {
	for _, n := range []string{"r6", "r7"} {
		if c.Accounts[n].Acc.String() > c.Accounts["r1"].Acc.String() {
			return n
		}
	}
	return ""
}

// ghostAddr is the address relayer r3 registered on chain `on` as its own address on chain `of`.
func ghostAddr(on, of string) string { return world.NewAccount("ghost-" + on + "-" + of).Acc.String() }

// tss reports whether chain `on` follows chain `of` through a TSS client (no proofs: the TSS account's signature is the proof).
func (s *Sys) tss(on, of string) bool { return s.cfg.TSS && on == A && of == B }

func n2s(name string) string { return short[name] }

func must(err error) {
	if err != nil {
		panic(err)
	}
}

func (s *Sys) Clone() bfs.System {
	n := &Sys{cfg: s.cfg, w: s.w.Clone(), tok: s.tok, emit: s.emit, dead: s.dead}
	for _, t := range s.tr {
		c := *t
		n.tr = append(n.tr, &c)
	}
	return n
}

func (s *Sys) find(id string) *transfer {
	for _, t := range s.tr {
		if t.ID == id {
			return t
		}
	}
	return nil
}

// Ops lists the enabled operations.
func (s *Sys) Ops() []string {
	if s.dead != "" {
		return nil
	}
	var out []string
	if len(s.tr) < s.cfg.MaxSends {
		for _, m := range s.cfg.Sends {
			out = append(out, "send "+m)
		}
	}
	names := s.w.Order
	for _, on := range names {
		for _, of := range names {
			if on != of && !s.tss(on, of) && s.w.Chains[of].Height() > int64(s.w.Chains[on].ClientLatest(of).RevisionHeight) {
				out = append(out, fmt.Sprintf("upd %s %s", short[on], short[of]))
			}
		}
	}
	for _, t := range s.tr {
		for _, f := range s.cfg.RecvForms {
			if f == "g4" && t.Dst != B {
				continue // r4 relays on chain B only
			}
			if f == "g6" && s.sharedVictim(s.w.Chains[t.Dst]) == "" {
				continue
			}
			if (f == "g3" || f == "g4" || f == "g6") && !strings.Contains(t.Kind, "+callrevert") && t.Kind != "feeonly1" {
				continue // the unresolvable fee recipient matters where an error acknowledgement must refund and where a fee is escrowed
			}
			out = append(out, fmt.Sprintf("recv %s %s", t.ID, f))
		}
	}
	for _, t := range s.tr {
		for _, f := range s.cfg.AckForms {
			if t.AckBytes == nil && (f == "g1" || f == "g2" || f == "dup2" || f == "old" || f == "altpkt" || f == "altfee") {
				continue // nothing to relay yet
			}
			if f == "tssaddr" && !s.tss(t.Src, t.Dst) {
				continue
			}
			out = append(out, fmt.Sprintf("ack %s %s", t.ID, f))
		}
	}
	if s.cfg.Attacks {
		out = append(out, s.attackOps()...)
		for _, on := range names {
			for _, of := range names {
				if on != of && on != C && of != C && !s.tss(on, of) && len(s.tr) > 0 {
					out = append(out, fmt.Sprintf("fupd %s %s", short[on], short[of]), fmt.Sprintf("fupd %s %s lower", short[on], short[of]))
				}
			}
		}
	}
	return out
}

func pad32(n int64) []byte {
	return common.LeftPadBytes(big.NewInt(n).Bytes(), 32)
}

// sendTx builds the user transaction for a send menu entry.
func (s *Sys) sendTx(src, dst *world.Chain, kind string, amount int64) (tx []byte, fee int64) {
	u1 := src.Accounts["u1"]
	recv := strings.ToLower(dst.Accounts["u1"].Eth.String())
	d := packettypes.CrossChainData{
		DstChain:        dst.Name,
		Receiver:        recv,
		Amount:          big.NewInt(amount),
		CallbackAddress: common.Address{},
	}
	feeTok := common.Address{}
	value := big.NewInt(0)
	base := kind
	call := "none"
	if i := strings.Index(kind, "+"); i >= 0 {
		base, call = kind[:i], kind[i+1:]
	}
	switch base {
	case "erc20":
		d.TokenAddress = s.tok[short[src.Name]+":erc20"]
		feeTok = d.TokenAddress
	case "native":
		d.TokenAddress = common.Address{}
		value = big.NewInt(amount)
	case "back": // bound token of dst's erc20 going home
		d.TokenAddress = s.tok[short[src.Name]+":bound:"+short[dst.Name]+":erc20"]
		feeTok = d.TokenAddress
	case "unknown": // destination without a client
		d.DstChain = "nochain-77"
		d.TokenAddress = s.tok[short[src.Name]+":erc20"]
	case "unknownslash", "unknowndot", "unknownup": // no client either: spellings that a path clean-up would turn into dst's name
		d.DstChain = map[string]string{"unknownslash": dst.Name + "/", "unknowndot": "./" + dst.Name, "unknownup": "x/../" + dst.Name}[base]
		d.TokenAddress = s.tok[short[src.Name]+":erc20"]
	case "feeonly1": // erc20 with a fee of 1
		d.TokenAddress = s.tok[short[src.Name]+":erc20"]
		feeTok = d.TokenAddress
		fee = 1
	}
	dstTok := s.tok[short[dst.Name]+":bound:"+short[src.Name]+":erc20"]
	switch call {
	case "none":
	case "callok":
		d.ContractAddress = strings.ToLower(dstTok.String())
		cd, err := erc20contracts.ERC20MinterBurnerDecimalsContract.ABI.Pack("approve", src.Accounts["out"].Eth, big.NewInt(7))
		must(err)
		d.CallData = cd
	case "callrevert":
		d.ContractAddress = strings.ToLower(dstTok.String())
		cd, err := erc20contracts.ERC20MinterBurnerDecimalsContract.ABI.Pack("transfer", src.Accounts["out"].Eth, new(big.Int).Lsh(big.NewInt(1), 200))
		must(err)
		d.CallData = cd
	case "calleoa":
		d.ContractAddress = strings.ToLower(src.Accounts["out"].Eth.String())
		d.CallData = []byte{1, 2, 3, 4}
	case "cbfail": // the sender names a callback contract whose (EVM-successful) call into the staking system contract fails natively
		d.CallbackAddress = s.cb[short[src.Name]]
	case "hookfail": // Staking.delegate to a malformed validator: the EVM call succeeds, the post-transaction hook fails
		d.ContractAddress = syscontracts.StakingContractAddress
		cd, err := stakingcontract.StakingContract.ABI.Pack("delegate", "not-a-validator", big.NewInt(1))
		must(err)
		d.CallData = cd
	case "agentgood": // nested cross-chain send back to the source chain through the agent contract
		d.Receiver = strings.ToLower(agentcontract.AgentContractAddress.String())
		d.ContractAddress = syscontracts.AgentContractAddress
		cd, err := agentcontract.AgentContract.ABI.Pack("send", dstTok, recv, src.Name, big.NewInt(0))
		must(err)
		d.CallData = cd
	case "agentbad": // nested cross-chain send to an unknown chain through the agent contract
		d.Receiver = strings.ToLower(agentcontract.AgentContractAddress.String())
		d.ContractAddress = syscontracts.AgentContractAddress
		cd, err := agentcontract.AgentContract.ABI.Pack("send", dstTok, recv, "nochain-77", big.NewInt(0))
		must(err)
		d.CallData = cd
	}
	if base == "native" {
		feeTok = common.Address{}
	}
	if base == "forgedlog" { // a user has an ordinary contract emit a log that is byte-identical to the packet contract's PacketSent for a well-formed next packet
		td := packettypes.TransferData{Token: strings.ToLower(s.tok[short[src.Name]+":erc20"].String()), Amount: pad32(amount), Receiver: recv}
		tdb, _ := td.ABIPack()
		next := src.App.XIBCKeeper.PacketKeeper.GetNextSequenceSend(src.ReadCtx(), src.Name, dst.Name)
		p := packettypes.Packet{SrcChain: src.Name, DstChain: dst.Name, Sequence: next, Sender: strings.ToLower(u1.Eth.String()), TransferData: tdb, CallbackAddress: common.Address{}.String()}
		pbz, err := p.ABIPack()
		must(err)
		ev := packetcontract.PacketContract.ABI.Events["PacketSent"]
		logData, err := ev.Inputs.Pack(pbz)
		must(err)
		em := s.emit[short[src.Name]]
		return src.EthTx(u1, &em, nil, append(ev.ID.Bytes(), logData...)), 0
	}
	if base == "direct" { // a user calls packet.sendPacket itself with a well-formed next packet
		td := packettypes.TransferData{Token: strings.ToLower(s.tok[short[src.Name]+":erc20"].String()), Amount: pad32(amount), Receiver: recv}
		tdb, _ := td.ABIPack()
		next := src.App.XIBCKeeper.PacketKeeper.GetNextSequenceSend(src.ReadCtx(), src.Name, dst.Name)
		p := packettypes.Packet{SrcChain: src.Name, DstChain: dst.Name, Sequence: next, Sender: strings.ToLower(u1.Eth.String()), TransferData: tdb, CallbackAddress: common.Address{}.String()}
		data, err := packetcontract.PacketContract.ABI.Pack("sendPacket", p, packettypes.Fee{TokenAddress: common.Address{}, Amount: big.NewInt(0)})
		must(err)
		return src.EthTx(u1, &packetcontract.PacketContractAddress, nil, data), 0
	}
	if base == "native" || base == "feeonly1" {
		d.FeeOption = 2 // a non-zero fee option travels in the packet and in its acknowledgement and is part of what is committed
	}
	d.Amount = s.raw(d.TokenAddress, amount)
	if base == "back" && s.cfg.TraceScale != 0 {
		// the endpoint takes the amount of a bound token in units of the origin token and burns amount x 10^scale
		d.Amount = s.rawCfg(amount)
	}
	data := world.CrossChainCallData(d, packettypes.Fee{TokenAddress: feeTok, Amount: s.raw(feeTok, fee)})
	if base == "native" && fee > 0 {
		value = new(big.Int).Add(value, big.NewInt(fee))
	}
	if call == "ctor" {
		// the cross-chain call is made from the constructor of a contract being deployed (a transaction without a "to" address)
		return src.EthTx(u1, nil, value, ctorForward(endpointcontract.EndpointContractAddress, data)), fee
	}
	return src.EthTx(u1, &endpointcontract.EndpointContractAddress, value, data), fee
}

// ctorForward is hand-assembled init code: copy the embedded call data to memory, CALL target with the deployment's
// value, revert if the call failed, otherwise deploy an empty contract.
func ctorForward(target common.Address, data []byte) []byte {
	const L = 56 // length of the prologue = offset of the embedded call data
	n := len(data)
	code := []byte{0x61, byte(n >> 8), byte(n), 0x61, 0, L, 0x60, 0, 0x39}                // PUSH2 len PUSH2 off PUSH1 0 CODECOPY
	code = append(code, 0x60, 0, 0x60, 0, 0x61, byte(n>>8), byte(n), 0x60, 0, 0x34, 0x73) // retLen retOff argsLen argsOff CALLVALUE PUSH20
	code = append(code, target.Bytes()...)
	code = append(code, 0x5a, 0xf1, 0x60, 50, 0x57, 0x60, 0, 0x60, 0, 0xfd, 0x5b, 0x60, 0, 0x60, 0, 0xf3) // GAS CALL PUSH1 50 JUMPI revert | JUMPDEST return
	if len(code) != L {
		panic(fmt.Sprintf("ctorForward prologue is %d bytes", len(code)))
	}
	return append(code, data...)
}

// proofFor builds (proof, proofHeight) for key on chain `of` as seen by `on`'s client at height h (0 = client's latest).
func (s *Sys) proofFor(on, of *world.Chain, key []byte, h int64) ([]byte, clienttypes.Height) {
	if s.tss(on.Name, of.Name) {
		return []byte("no proof: tss"), clienttypes.NewHeight(0, uint64(of.Height()))
	}
	if h == 0 {
		h = int64(on.ClientLatest(of.Name).RevisionHeight)
	}
	p, ph, _ := of.QueryProof(key, h)
	return p, ph
}

// reencode returns a non-canonical ABI encoding decoding to the same packet.
func reencode(bz []byte) []byte {
	// outer offset 0x20 -> 0x40 with 32 bytes of padding in between, plus 32 trailing bytes
	if len(bz) < 32 {
		return bz
	}
	out := append([]byte{}, pad32(0x40)...)
	out = append(out, bytes.Repeat([]byte{0xee}, 32)...)
	out = append(out, bz[32:]...)
	out = append(out, make([]byte, 32)...)
	return out
}

func altered(p packettypes.Packet) []byte {
	var td packettypes.TransferData
	if err := td.ABIDecode(p.TransferData); err == nil {
		amt := new(big.Int).SetBytes(td.Amount)
		td.Amount = common.LeftPadBytes(amt.Add(amt, big.NewInt(1)).Bytes(), 32)
		p.TransferData, _ = td.ABIPack()
	} else {
		p.Sender = p.Sender + "0"
	}
	bz, _ := p.ABIPack()
	return bz
}

type txPlan struct {
	kind   string // "send" | "upd" | "recv" | "ack" | "atk"
	tx     []byte
	ids    []string // packet ids of the messages in this tx, in order
	accept []bool   // filled by monitors
}

// Apply executes one operation = one block on one chain.
func (s *Sys) Apply(op string) (obs, class string, viols []bfs.Viol) {
	f := strings.Fields(op)
	add := func(prop, sig, detail string) {
		viols = append(viols, bfs.Viol{Sig: prop + ":" + sig, Detail: detail})
	}
	switch f[0] {
	case "send":
		src, dst := s.w.Chains[long[f[1]]], s.w.Chains[long[f[2]]]
		var amt int64
		fmt.Sscan(f[4], &amt)
		tx, fee := s.sendTx(src, dst, f[3], amt)
		obs, class = s.stepSend(src, dst, f[3], amt, fee, tx, add)
		return
	case "upd":
		on, of := s.w.Chains[long[f[1]]], s.w.Chains[long[f[2]]]
		msg := world.MsgUpdate(on, of, 0, on.Accounts["r1"])
		tx := on.CosmosTx(on.Accounts["r1"], msg)
		obs, class = s.stepOther(on, "upd", [][]byte{tx}, add)
		return
	case "fupd":
		// a registered relayer re-submits the header of the height the client already tracks, with another application hash
		// (same block time and validator hashes; the signatures no longer match): whatever happens to the message, every
		// state root the client holds afterwards is one the counterparty really had
		on, of := s.w.Chains[long[f[1]]], s.w.Chains[long[f[2]]]
		latest := on.ClientLatest(of.Name)
		hdr := of.UpdateHeader(int64(latest.RevisionHeight), latest)
		sh := *hdr.SignedHeader
		hh := *sh.Header
		forged := sha256.Sum256(append([]byte("a store of the relayer's own/"), hh.AppHash...))
		hh.AppHash = forged[:]
		sh.Header = &hh
		if th, err := tmtypes.HeaderFromProto(&hh); err == nil && sh.Commit != nil {
			// the commit names the forged header (so that the message is well formed); its signatures are those of the real one
			cm := *sh.Commit
			cm.BlockID.Hash = th.Hash()
			sh.Commit = &cm
		}
		hdr.SignedHeader = &sh
		if len(f) > 3 && f[3] == "lower" {
			// trusting the height below (when the client holds it)
			if o := s.oldestProving(on, of, 0); o != 0 && uint64(o) < latest.RevisionHeight {
				hdr.TrustedHeight = clienttypes.NewHeight(latest.RevisionNumber, uint64(o))
			}
		}
		msg, err := clienttypes.NewMsgUpdateClient(of.Name, hdr, on.Accounts["r2"].Acc)
		must(err)
		obs, class = s.stepOther(on, "forged update", [][]byte{on.CosmosTx(on.Accounts["r2"], msg)}, add)
		s.checkRoots(on, of, add, op)
		return
	case "upgrade":
		// the registered software upgrade (v0.2) executes on a chain: system contracts are re-installed and the xibc state is
		// reset; whatever it keeps or drops, the chain-side send counters and the packet contract's must still agree and
		// hold no commitment the contract's counter does not cover. The search ends here (the ledger does not model the reset).
		c := s.w.Chains[long[f[1]]]
		s.w.Do(c, func(ctx sdk.Context) {
			if err := c.App.UpgradeKeeper.ScheduleUpgrade(ctx, upgradetypes.Plan{Name: "v0.2", Height: ctx.BlockHeight() + 1}); err != nil {
				panic(err)
			}
		})
		s.w.Block(c)
		for _, d := range append(append([]string{}, s.w.Order...), "nochain-77") {
			if d == c.Name {
				continue
			}
			nk := c.App.XIBCKeeper.PacketKeeper.GetNextSequenceSend(c.ReadCtx(), c.Name, d)
			nc := c.ContractNextSeq(d)
			if nk != nc {
				add("C04", "sequence-counters-disagree-after-upgrade", fmt.Sprintf("after the v0.2 upgrade on %s towards %s: chain-side counter %d, packet contract %d", short[c.Name], shortOr(d), nk, nc))
			}
		}
		s.dead = "upgraded"
		return "upgraded", "software upgrade executed", viols
	case "restart":
		// the network is restarted from an exported genesis (`teleport export`, then InitChain of a fresh application):
		// the xibc records, the state of the system contracts and every balance are what they were, and the chain-side
		// send counters agree with the packet contract's. The search ends here (the old headers are gone).
		c := s.w.Chains[long[f[1]]]
		before := dumpAll(c)
		n, err := c.RestartFromExport(s.w.Tick())
		if err != nil {
			add("C13", "restart-from-exported-genesis-fails", fmt.Sprintf("on %s: %v", short[c.Name], err))
			add("C04", "restart-from-exported-genesis-fails", fmt.Sprintf("on %s: %v", short[c.Name], err))
			s.dead = "restart failed"
			return "restart failed", "restart from exported genesis fails", viols
		}
		for _, d := range append(append([]string{}, s.w.Order...), "nochain-77") {
			if d == c.Name {
				continue
			}
			model := uint64(1)
			for _, t := range s.tr {
				if t.Src == c.Name && t.Dst == d {
					model++
				}
			}
			nk := n.App.XIBCKeeper.PacketKeeper.GetNextSequenceSend(n.ReadCtx(), c.Name, d)
			nc := n.ContractNextSeq(d)
			if nk != nc || nk != model {
				add("C04", "sequence-counters-disagree-after-restart", fmt.Sprintf("after a restart of %s from its exported genesis, towards %s: chain-side counter %d, packet contract %d, ledger %d", short[c.Name], shortOr(d), nk, nc, model))
			}
		}
		after := dumpAll(n)
		for _, st := range []string{host.StoreKey, evmtypes.StoreKey, banktypes.StoreKey} {
			if d := world.DiffStores(before[st], after[st]); len(d) > 0 {
				for _, prop := range []string{"C13", "C04", "C03"} {
					add(prop, "state-differs-after-restart-from-exported-genesis/"+st, fmt.Sprintf("restart of %s: store %s differs: %v", short[c.Name], st, d))
				}
			}
		}
		s.dead = "restarted"
		return "restarted", "restart from exported genesis", viols
	case "recv":
		obs, class = s.stepRecv(f[1], f[2], add)
		return
	case "ack":
		obs, class = s.stepAck(f[1], f[2], add)
		return
	case "atk":
		obs, class = s.stepAttack(f[1:], add)
		return
	}
	panic("unknown op " + op)
}

type addFn func(prop, sig, detail string)

func dumpAll(c *world.Chain) map[string]map[string]string {
	out := map[string]map[string]string{}
	for _, n := range stores {
		out[n] = c.DumpStore(n)
	}
	return out
}

func diffAll(a, b map[string]map[string]string) []string {
	var out []string
	for _, n := range stores {
		for _, d := range world.DiffStores(a[n], b[n]) {
			out = append(out, n+":"+d)
		}
	}
	return out
}

// globalMonitors are demanded of every transaction on every chain.
func (s *Sys) globalMonitors(c *world.Chain, pre, post map[string]map[string]string, allowedCommitRemovals map[string]bool, add addFn, what string) {
	for k, v := range pre[host.StoreKey] {
		if strings.HasPrefix(k, host.KeyPacketAckPrefix+"/") {
			if w, ok := post[host.StoreKey][k]; !ok || w != v {
				add("C05", "stored-ack-overwritten-or-removed", fmt.Sprintf("%s on %s: key %s changed", what, short[c.Name], k))
			}
		}
		if strings.HasPrefix(k, host.KeyPacketReceiptPrefix+"/") {
			if _, ok := post[host.StoreKey][k]; !ok {
				add("C01", "receipt-removed", fmt.Sprintf("%s on %s: key %s removed", what, short[c.Name], k))
			}
		}
		if strings.HasPrefix(k, host.KeyPacketCommitmentPrefix+"/") {
			if w, ok := post[host.StoreKey][k]; !ok {
				if !allowedCommitRemovals[k] {
					add("C05", "commitment-removed-without-verified-ack", fmt.Sprintf("%s on %s: key %s removed", what, short[c.Name], k))
				}
			} else if w != v {
				add("C04", "commitment-overwritten", fmt.Sprintf("%s on %s: key %s changed", what, short[c.Name], k))
			}
		}
	}
}

func (s *Sys) stepSend(src, dst *world.Chain, kind string, amt, fee int64, tx []byte, add addFn) (string, string) {
	s.checkCounters(src, add, "before send")
	src.Begin(s.w.Tick())
	pre := dumpAll(src)
	r := src.Deliver(tx)
	post := dumpAll(src)
	src.End()
	s.globalMonitors(src, pre, post, nil, add, "send")
	d := diffAll(pre, post)
	class := "send " + kind
	if kind == "forgedlog" {
		// whatever becomes of the transaction, the look-alike log is nobody's send: no xibc record and no counter may change
		for _, x := range d {
			if strings.HasPrefix(x, host.StoreKey+":") {
				add("C06", "look-alike-packetsent-log-processed-as-a-send", fmt.Sprintf("on %s a log emitted by an ordinary contract changed xibc state: %s", short[src.Name], x))
				add("C04", "commitment-or-counter-changed-without-a-send", fmt.Sprintf("on %s a log emitted by an ordinary contract changed xibc state: %s", short[src.Name], x))
			}
		}
		s.checkCounters(src, add, "after a look-alike log")
		return "look-alike log", class + " ignored"
	}
	if !r.OK() {
		class += " rejected"
		if len(d) > 0 {
			add("C04", "failed-send-changed-state", fmt.Sprintf("send %s on %s failed (%s %s) but changed %v", kind, short[src.Name], r.Log, r.VMError, d))
		}
		if os.Getenv("VERIF_DEBUG_RET") != "" {
			fmt.Printf("RET %q\n", r.Ret)
		}
		return fmt.Sprintf("send rejected code=%d vm=%q", r.Code, r.VMError), class
	}
	class += " accepted"
	if strings.HasPrefix(kind, "unknown") {
		add("C04", "send-to-a-destination-without-a-client-accepted", fmt.Sprintf("send %s on %s succeeded and changed %v", kind, short[src.Name], d))
		s.dead = "send to an unknown destination accepted"
		return "sent to unknown destination", class
	}
	nt := s.observeSends(src, pre, post, r, add, "send "+kind)
	if len(nt) != 1 {
		add("C04", "send-not-exactly-one-commitment", fmt.Sprintf("successful send %s on %s produced %d commitments", kind, short[src.Name], len(nt)))
		return "send ok (bad)", class
	}
	nt[0].Kind, nt[0].Fee = kind, fee
	if nt[0].Amount != amt && !strings.HasPrefix(kind, "call") {
		add("C03", "packet-amount-differs-from-request", fmt.Sprintf("send %s: requested %d, packet carries %d", kind, amt, nt[0].Amount))
	}
	s.checkCounters(src, add, "after send")
	return fmt.Sprintf("sent %s", nt[0].ID), class
}

// checkCounters: keeper counter == contract counter == 1 + number of sends of the ledger, for every destination.
func (s *Sys) checkCounters(c *world.Chain, add addFn, when string) {
	dsts := map[string]bool{"nochain-77": true}
	for _, n := range s.w.Order {
		if n != c.Name {
			dsts[n] = true
		}
	}
	for d := range dsts {
		model := uint64(1)
		for _, t := range s.tr {
			if t.Src == c.Name && t.Dst == d {
				model++
			}
		}
		nk := c.App.XIBCKeeper.PacketKeeper.GetNextSequenceSend(c.ReadCtx(), c.Name, d)
		nc := c.ContractNextSeq(d)
		if nk != model || nc != model {
			add("C04", "sequence-counters-disagree", fmt.Sprintf("%s on %s towards %s: keeper=%d contract=%d ledger=%d", when, short[c.Name], d, nk, nc, model))
		}
	}
}

// observeSends registers every packet this chain committed to in the transaction (user sends and sends
// triggered from inside received packets) and checks numbering and commitment content.
func (s *Sys) observeSends(c *world.Chain, pre, post map[string]map[string]string, r world.TxResult, add addFn, what string) []*transfer {
	var out []*transfer
	var newKeys []string
	prefix := host.KeyPacketCommitmentPrefix + "/" + c.Name + "/"
	for k := range post[host.StoreKey] {
		if _, had := pre[host.StoreKey][k]; !had && strings.HasPrefix(k, prefix) {
			newKeys = append(newKeys, k)
		}
	}
	sort.Strings(newKeys)
	// packets announced by typed events, by commitment key
	announced := map[string][]byte{}
	for _, ev := range world.TypedEventAttr(r, "xibc.core.packet.v1.EventSendPacket", "packet") {
		var b64 string
		if json.Unmarshal([]byte(ev), &b64) != nil {
			continue
		}
		raw, _ := decodeB64(b64)
		var p packettypes.Packet
		if p.ABIDecode(raw) == nil {
			announced[string(host.PacketCommitmentKey(p.SrcChain, p.DstChain, p.Sequence))] = raw
		}
	}
	emitted := map[string][]byte{}
	for _, sp := range world.PacketsFromResult(r) {
		emitted[string(host.PacketCommitmentKey(sp.Packet.SrcChain, sp.Packet.DstChain, sp.Packet.Sequence))] = sp.Bytes
	}
	for _, k := range newKeys {
		raw, ok := announced[k]
		if !ok {
			add("C04", "commitment-without-send-event", fmt.Sprintf("%s on %s: new commitment %s has no EventSendPacket", what, short[c.Name], k))
			continue
		}
		if e, ok := emitted[k]; ok && !bytes.Equal(e, raw) {
			add("C04", "event-bytes-differ-from-contract-bytes", fmt.Sprintf("%s: EventSendPacket bytes != PacketSent bytes for %s", what, k))
		}
		var p packettypes.Packet
		must(p.ABIDecode(raw))
		h := sha256.Sum256(raw)
		if post[host.StoreKey][k] != string(h[:]) {
			add("C04", "commitment-not-hash-of-emitted-bytes", fmt.Sprintf("%s on %s: %s stores %x, sha256(emitted bytes)=%x", what, short[c.Name], k, post[host.StoreKey][k], h))
		}
		model := uint64(1)
		for _, t := range s.tr {
			if t.Src == c.Name && t.Dst == p.DstChain {
				model++
			}
		}
		if p.Sequence != model || p.SrcChain != c.Name {
			add("C04", "packet-numbered-wrong", fmt.Sprintf("%s on %s: committed %s/%s/%d, next sequence of the ledger is %d", what, short[c.Name], p.SrcChain, p.DstChain, p.Sequence, model))
		}
		t := &transfer{ID: fmt.Sprintf("%s>%s#%d", short[c.Name], shortOr(p.DstChain), p.Sequence), Src: c.Name, Dst: p.DstChain, Kind: "nested", Bytes: raw, CommitAt: c.Height() + boolInt(c.InBlock())}
		var td packettypes.TransferData
		if len(p.TransferData) > 0 && td.ABIDecode(p.TransferData) == nil {
			t.Token = common.HexToAddress(td.Token)
			t.Amount = s.units(t.Token, new(big.Int).SetBytes(td.Amount))
			if s.cfg.TraceScale != 0 {
				// packets carry amounts in units of the origin token
				q, r := new(big.Int).QuoRem(new(big.Int).SetBytes(td.Amount), s.rawCfg(1), new(big.Int))
				t.Amount = q.Int64()
				if r.Sign() != 0 {
					t.Amount = -7777777
				}
			}
		}
		s.tr = append(s.tr, t)
		out = append(out, t)
	}
	for k := range announced {
		found := false
		for _, nk := range newKeys {
			if nk == k {
				found = true
			}
		}
		if !found && strings.HasPrefix(k, prefix) {
			add("C04", "send-event-without-commitment", fmt.Sprintf("%s on %s: EventSendPacket for %s but no new commitment", what, short[c.Name], k))
		}
	}
	return out
}

func shortOr(n string) string {
	if v, ok := short[n]; ok {
		return v
	}
	return n
}

func boolInt(b bool) int64 {
	if b {
		return 1
	}
	return 0
}

func decodeB64(s string) ([]byte, error) {
	var out []byte
	err := json.Unmarshal([]byte(`"`+s+`"`), &out)
	return out, err
}

// stepOther runs txs with only the global monitors (client updates).
func (s *Sys) stepOther(c *world.Chain, what string, txs [][]byte, add addFn) (string, string) {
	c.Begin(s.w.Tick())
	var codes []string
	ok := true
	for _, tx := range txs {
		pre := dumpAll(c)
		r := c.Deliver(tx)
		post := dumpAll(c)
		s.globalMonitors(c, pre, post, nil, add, what)
		codes = append(codes, fmt.Sprint(r.Code))
		if r.Code != 0 {
			ok = false
			if d := diffAll(pre, post); len(d) > 0 {
				add("C01", "failed-tx-changed-state", fmt.Sprintf("%s on %s failed but changed %v", what, short[c.Name], d))
			}
		}
	}
	c.End()
	cl := what + " accepted"
	if !ok {
		cl = what + " rejected"
	}
	return what + " codes=" + strings.Join(codes, ","), cl
}

// recvMsg builds a MsgRecvPacket for transfer t in the given form.
func (s *Sys) recvMsg(t *transfer, form string) (msgs []sdk.Msg, signer world.Account, chain *world.Chain, twoTx bool) {
	dst := s.w.Chains[t.Dst]
	src := s.w.Chains[t.Src]
	signer = dst.Accounts["r1"]
	if s.tss(dst.Name, src.Name) {
		signer = dst.Accounts["u2"] // every form except g2 carries the TSS account's signature
	}
	var p packettypes.Packet
	must(p.ABIDecode(t.Bytes))
	key := host.PacketCommitmentKey(p.SrcChain, p.DstChain, p.Sequence)
	bz := t.Bytes
	var h int64
	switch form {
	case "g2":
		signer = dst.Accounts["r2"]
	case "g3":
		signer = dst.Accounts["r3"]
	case "g4":
		signer = dst.Accounts["r4"]
	case "g6":
		signer = dst.Accounts[s.sharedVictim(dst)]
	case "reenc":
		bz = reencode(bz)
	case "alt":
		bz = altered(p)
	case "old":
		// oldest stored consensus height that already proves the commitment
		h = s.oldestProving(dst, src, t.CommitAt)
	}
	proof, ph := s.proofFor(dst, src, key, h)
	if form == "mis" {
		// proof generated at the client's latest height, stated under the oldest proving height
		if o := s.oldestProving(dst, src, t.CommitAt); o != 0 {
			ph = clienttypes.NewHeight(ph.RevisionNumber, uint64(o))
		}
	}
	m := packettypes.NewMsgRecvPacket(bz, proof, ph, signer.Acc)
	msgs = []sdk.Msg{m}
	if form == "dup2" {
		msgs = append(msgs, packettypes.NewMsgRecvPacket(bz, proof, ph, signer.Acc))
	}
	return msgs, signer, dst, form == "dupblk"
}

// beforeDelay: "" if the delay period of on's tendermint client of `of` has passed for the stated proof height at the
// current block time, a description otherwise. The processed time is the one the update wrote.
func (s *Sys) beforeDelay(on, of *world.Chain, ph clienttypes.Height) string {
	if s.cfg.TimeDelay == 0 {
		return ""
	}
	st := on.App.XIBCKeeper.ClientKeeper.ClientStore(on.ReadCtx(), of.Name)
	pt, ok := xibctmtypes.GetProcessedTime(st, ph)
	now := uint64(s.w.Now.UnixNano())
	if !ok || now < pt+s.cfg.TimeDelay {
		return fmt.Sprintf("proof height %s was processed at %d ns (found=%v), the block time is %d ns, the client's delay period %d ns", ph, pt, ok, now, s.cfg.TimeDelay)
	}
	return ""
}

// checkRoots: every consensus state of on's tendermint client of `of` carries the application hash `of` really had
// after the block below that height (the harness owns both chains).
func (s *Sys) checkRoots(on, of *world.Chain, add addFn, when string) {
	if s.tss(on.Name, of.Name) {
		return
	}
	on.App.XIBCKeeper.ClientKeeper.IterateConsensusStates(on.ReadCtx(), func(name string, cs clienttypes.ConsensusStateWithHeight) bool {
		if name != of.Name {
			return false
		}
		st, err := clienttypes.UnpackConsensusState(cs.ConsensusState)
		h := int64(cs.Height.RevisionHeight)
		truth := of.AppHashAfter[h-1]
		if hd := of.Headers[h]; hd != nil && hd.SignedHeader != nil && hd.SignedHeader.Header != nil {
			truth = hd.SignedHeader.Header.AppHash // the application hash the counterparty's own header of that height carries
		}
		if truth == nil {
			return false
		}
		if err != nil || !bytes.Equal(st.GetRoot(), truth) {
			for _, prop := range []string{"C02", "C01", "C05"} {
				add(prop, "client-holds-a-state-root-the-counterparty-never-had", fmt.Sprintf("after %s: the client on %s of %s holds root %x at height %s, the counterparty's application hash there was %x", when, short[on.Name], short[of.Name], st.GetRoot(), cs.Height, truth))
			}
		}
		return false
	})
}

// oldestProving returns the smallest stored consensus height of on's client of `of` that is > artefactHeight (0 if none).
func (s *Sys) oldestProving(on, of *world.Chain, artefactHeight int64) int64 {
	var best int64
	ctx := on.ReadCtx()
	on.App.XIBCKeeper.ClientKeeper.IterateConsensusStates(ctx, func(name string, cs clienttypes.ConsensusStateWithHeight) bool {
		if name != of.Name {
			return false
		}
		h := int64(cs.Height.RevisionHeight)
		if h > artefactHeight && (best == 0 || h < best) {
			best = h
		}
		return false
	})
	return best
}

// groundTruthRecv: an accepted receive must be backed by what the source chain really stored (the harness owns both chains).
func (s *Sys) groundTruthRecv(dst *world.Chain, m *packettypes.MsgRecvPacket, add addFn, what string) {
	var p packettypes.Packet
	if err := p.ABIDecode(m.Packet); err != nil {
		add("C02", "accepted-receive-undecodable", what)
		return
	}
	src := s.w.Chains[p.SrcChain]
	if src == nil {
		add("C02", "accepted-receive-from-unknown-chain", what+" src="+p.SrcChain)
		return
	}
	if s.tss(dst.Name, src.Name) {
		if m.Signer != dst.Accounts["u2"].Acc.String() {
			add("C06", "tss-secured-receive-accepted-from-another-signer", fmt.Sprintf("recv %s on %s signed by %s", what, short[dst.Name], m.Signer))
		}
		return
	}
	if early := s.beforeDelay(dst, src, m.ProofHeight); early != "" {
		for _, prop := range []string{"C01", "C02", "C03"} {
			add(prop, "receive-accepted-before-the-delay-period", fmt.Sprintf("recv %s on %s: %s", what, short[dst.Name], early))
		}
	}
	canon, _ := p.ABIPack()
	hc := sha256.Sum256(canon)
	ver := int64(m.ProofHeight.RevisionHeight) - 1
	truth := src.StoreAt(host.PacketCommitmentKey(p.SrcChain, p.DstChain, p.Sequence), ver)
	if !bytes.Equal(truth, hc[:]) {
		add("C02", "receive-accepted-but-source-never-committed-it", fmt.Sprintf("recv %s on %s: source %s stores %x under %s/%s/%d at version %d, message packet hashes to %x", what, short[dst.Name], short[src.Name], truth, p.SrcChain, p.DstChain, p.Sequence, ver, hc))
	}
	cs, ok := dst.App.XIBCKeeper.ClientKeeper.GetClientConsensusState(dst.ReadCtx(), p.SrcChain, m.ProofHeight)
	if !ok {
		add("C02", "receive-accepted-at-height-without-consensus-state", fmt.Sprintf("recv %s: no consensus state at %s", what, m.ProofHeight))
	} else if !bytes.Equal(cs.GetRoot(), src.AppHashAfter[ver]) {
		add("C02", "consensus-state-differs-from-source-app-hash", fmt.Sprintf("recv %s: client root %x, source app hash after block %d is %x", what, cs.GetRoot(), ver, src.AppHashAfter[ver]))
	}
}

// checkNoDestinationEffect: an error acknowledgement must leave no token or contract effect on the destination.
func (s *Sys) checkNoDestinationEffect(dst *world.Chain, t *transfer, pre, post map[string]map[string]string, add addFn) {
	packetAddr := packetcontract.PacketContractAddress.Bytes()
	for _, x := range world.DiffStores(pre[evmtypes.StoreKey], post[evmtypes.StoreKey]) {
		raw, err := hex.DecodeString(x[1:])
		if err != nil {
			raw = []byte(x[1:])
		}
		// evm store: 0x02 | address | slot  = contract storage
		if len(raw) >= 21 && raw[0] == 0x02 && bytes.Equal(raw[1:21], packetAddr) {
			continue // the packet contract's own bookkeeping (latest packet etc.)
		}
		add("C03", "error-ack-left-contract-effect", fmt.Sprintf("recv %s (%s) on %s ended in an error acknowledgement but EVM state changed outside the packet contract: %s", t.ID, t.Kind, short[dst.Name], x))
		return
	}
	if d := world.DiffStores(pre[banktypes.StoreKey], post[banktypes.StoreKey]); len(d) > 0 {
		add("C03", "error-ack-left-bank-effect", fmt.Sprintf("recv %s (%s) on %s ended in an error acknowledgement but bank state changed: %v", t.ID, t.Kind, short[dst.Name], d))
	}
}

func (s *Sys) ackMsg(t *transfer, form string) (sdk.Msg, world.Account, *world.Chain) {
	src := s.w.Chains[t.Src]
	dst := s.w.Chains[t.Dst]
	signer := src.Accounts["r1"]
	if s.tss(src.Name, dst.Name) && form != "conflict" && form != "early" && form != "tssaddr" {
		signer = src.Accounts["u2"] // genuine forms carry the TSS account's signature; forged ones come from an ordinary relayer
	}
	var p packettypes.Packet
	must(p.ABIDecode(t.Bytes))
	key := host.PacketAcknowledgementKey(p.SrcChain, p.DstChain, p.Sequence)
	ack := t.AckBytes
	var h int64
	switch form {
	case "g2":
		signer = src.Accounts["r2"]
	case "old":
		h = s.oldestProving(src, dst, t.AckAt-1)
	case "conflict", "early", "tssaddr":
		// other ack bytes (flipped outcome), with a genuine proof of whatever the counterparty stores under the key
		a := packettypes.NewAcknowledgement(1, []byte{}, "forged", signer.Acc.String(), 0)
		if t.AckBytes != nil {
			var real packettypes.Acknowledgement
			if real.ABIDecode(t.AckBytes) == nil {
				a = real
				if a.Code == 0 {
					a.Code = 1
				} else {
					a.Code = 0
				}
			}
		}
		ack, _ = a.ABIPack()
	}
	proof, ph := s.proofFor(src, dst, key, h)
	if form == "tssaddr" {
		// an ordinary relayer writes the (public) TSS address into the proof field of a conflicting acknowledgement
		proof = []byte(src.Accounts["u2"].Acc.String())
	}
	pkt := t.Bytes
	if form == "altpkt" {
		pkt = altered(p) // same triple, different body; genuine acknowledgement and proof
	}
	if form == "altfee" {
		q := p
		q.FeeOption++ // differs from the committed packet in the fee option only
		pkt, _ = q.ABIPack()
	}
	return packettypes.NewMsgAcknowledgement(pkt, ack, proof, ph, signer.Acc), signer, src
}

// tokenOf returns the token a transfer moves on its source chain (zero address = native).
func (s *Sys) tokenOf(t *transfer) common.Address { return t.Token }

func (s *Sys) holdings(c *world.Chain, token common.Address, who world.Account) *big.Int {
	if token == (common.Address{}) {
		return c.NativeBalance(who.Acc)
	}
	return c.ERC20Balance(token, who.Eth)
}

func (s *Sys) feeBalance(c *world.Chain, t *transfer, who world.Account) *big.Int {
	tok := s.tokenOf(t)
	if tok == (common.Address{}) {
		return big.NewInt(0).Mod(c.NativeBalance(who.Acc), big.NewInt(1<<40))
	}
	return c.ERC20Balance(tok, who.Eth)
}

func (s *Sys) senderHoldings(c *world.Chain, t *transfer) int64 {
	v := s.holdings(c, s.tokenOf(t), c.Accounts["u1"])
	if s.tokenOf(t) != (common.Address{}) {
		return s.units(s.tokenOf(t), v)
	}
	return new(big.Int).Mod(v, big.NewInt(1<<40)).Int64() // native balances are large; deltas are what matters
}

// Key is the canonical state: per transfer its life-cycle stage and the provability of its pending artefact.
func (s *Sys) Key() string {
	if s.dead != "" {
		return "dead"
	}
	var parts []string
	for _, t := range s.tr {
		src, dst := s.w.Chains[t.Src], s.w.Chains[t.Dst]
		st := "sent"
		prov := "-"
		// provability of the pending artefact: 0 = no header of the holder chain proves it yet,
		// 1 = such a header exists but the verifying client has not been updated to it,
		// 2 = provable at the client's latest height (+ whether an older stored height proves it too)
		stage := func(holder, verifier *world.Chain, artefactHeight int64) string {
			if holder == nil || verifier == nil {
				return "-"
			}
			if s.tss(verifier.Name, holder.Name) {
				return "T"
			}
			if int64(verifier.ClientLatest(holder.Name).RevisionHeight) > artefactHeight {
				n := 0
				ctx := verifier.ReadCtx()
				verifier.App.XIBCKeeper.ClientKeeper.IterateConsensusStates(ctx, func(name string, cs clienttypes.ConsensusStateWithHeight) bool {
					if name == holder.Name && int64(cs.Height.RevisionHeight) > artefactHeight {
						n++
					}
					return n >= 2
				})
				return fmt.Sprintf("2.%d", n)
			}
			if holder.Height() > artefactHeight {
				return "1"
			}
			return "0"
		}
		switch {
		case t.Acked:
			st = "acked"
		case t.Received:
			st = fmt.Sprintf("recvd(code=%d)", t.AckCode)
			prov = stage(dst, src, t.AckAt-1)
		default:
			prov = stage(src, dst, t.CommitAt)
		}
		// the fee recipient named in the stored acknowledgement decides whether the source chain will take it
		rel := ""
		if t.AckBytes != nil && src != nil && (strings.Contains(fieldsOf(indepAck, t.AckBytes), ghostAddr(t.Dst, t.Src)) || strings.Contains(fieldsOf(indepAck, t.AckBytes), " F3: F4:")) {
			rel = "/fee-recipient-unknown-to-source"
		}
		parts = append(parts, fmt.Sprintf("%s[%s %d]%s/%s%s", t.ID, t.Kind, t.Amount, st, prov, rel))
	}
	// value state (token balances, escrows, bindings) — everything the conservation monitors read
	parts = append(parts, s.valueState())
	return strings.Join(parts, ";")
}

func (s *Sys) valueState() string {
	var out []string
	for _, n := range s.w.Order {
		c := s.w.Chains[n]
		keys := make([]string, 0)
		for k := range s.tok {
			if strings.HasPrefix(k, short[n]+":") {
				keys = append(keys, k)
			}
		}
		sort.Strings(keys)
		for _, k := range keys {
			tok := s.tok[k]
			out = append(out, fmt.Sprintf("%s sup=%s u1=%s u2=%s ep=%s", k, c.ERC20Supply(tok), c.ERC20Balance(tok, c.Accounts["u1"].Eth), c.ERC20Balance(tok, c.Accounts["u2"].Eth), c.ERC20Balance(tok, endpointcontract.EndpointContractAddress)))
		}
	}
	return strings.Join(out, ",")
}

// Check evaluates the state invariants (C01 receipts = ledger, C03 conservation).
func (s *Sys) Check() []bfs.Viol {
	if s.dead != "" {
		return nil // (after the software upgrade, which resets the xibc state on purpose, the ledger no longer applies)
	}
	var viols []bfs.Viol
	add := func(prop, sig, detail string) {
		viols = append(viols, bfs.Viol{Sig: prop + ":" + sig, Detail: detail})
	}
	// C01: receipts on every chain are exactly the accepted receives of the ledger
	for _, n := range s.w.Order {
		c := s.w.Chains[n]
		want := map[string]bool{}
		for _, t := range s.tr {
			if t.Dst == n && t.Received {
				var p packettypes.Packet
				must(p.ABIDecode(t.Bytes))
				want[string(host.PacketReceiptKey(p.SrcChain, p.DstChain, p.Sequence))] = true
			}
		}
		got := c.XibcPacketKeys(host.KeyPacketReceiptPrefix)
		for k := range got {
			if !want[k] {
				add("C01", "receipt-without-accepted-receive", fmt.Sprintf("%s holds receipt %s the ledger never accepted", short[n], k))
			}
		}
		for k := range want {
			if _, ok := got[k]; !ok {
				add("C01", "accepted-receive-lost-receipt", fmt.Sprintf("%s lost receipt %s", short[n], k))
			}
		}
	}
	s.checkConservation(add)
	s.checkRestart(add)
	s.checkLifecycle(add)
	return viols
}

// checkLifecycle: governance may at any point replace a counterparty's client (toggle to another client type, or upgrade
// it); that concerns the client's own store only. On a throw-away branch of every chain in every reachable state each
// Tendermint client is toggled to a TSS client; every packet record (receipts, acknowledgements, commitments, send
// counters) and every other client's entries must be untouched — otherwise the guarantees of the history before the
// governance action are void after it.
func (s *Sys) checkLifecycle(add addFn) {
	for _, n := range s.w.Order {
		c := s.w.Chains[n]
		for _, o := range s.w.Order {
			if o == n || s.tss(n, o) {
				continue
			}
			ctx := c.ReadCtx()
			before := c.DumpStoreCtx(ctx, host.StoreKey)
			tcs := &tsstypes.ClientState{TssAddress: c.Accounts["u2"].Acc.String(), Pubkey: []byte{1}, PartPubkeys: [][]byte{{2}}, Threshold: 1}
			var err error
			func() {
				defer func() {
					if r := recover(); r != nil {
						err = fmt.Errorf("panic: %v", r)
					}
				}()
				err = c.App.XIBCKeeper.ClientKeeper.ToggleClient(ctx, o, tcs, &tsstypes.ConsensusState{})
			}()
			if err != nil {
				continue // lifecycle outcomes themselves are C18's subject
			}
			own := string(host.KeyClientStorePrefix) + "/" + o + "/"
			for _, d := range world.DiffStores(before, c.DumpStoreCtx(ctx, host.StoreKey)) {
				key := d[1:]
				if strings.HasPrefix(key, own) || strings.HasPrefix(key, hex.EncodeToString([]byte(own))) {
					continue
				}
				var props []string
				switch {
				case strings.HasPrefix(key, host.KeyPacketReceiptPrefix+"/"):
					props = []string{"C01", "C03"}
				case strings.HasPrefix(key, host.KeyPacketAckPrefix+"/"):
					props = []string{"C05", "C01"}
				case strings.HasPrefix(key, host.KeyPacketCommitmentPrefix+"/"):
					props = []string{"C04", "C05", "C03"}
				case strings.HasPrefix(key, host.KeyNextSeqSendPrefix+"/"):
					props = []string{"C04"}
				}
				for _, prop := range props {
					add(prop, "packet-state-changed-by-client-toggle/"+strings.SplitN(key, "/", 2)[0], fmt.Sprintf("chain %s: toggling the client of %s changed %s", short[n], short[o], d))
				}
			}
		}
	}
}

// checkRestart: a chain may at any point be restarted from its exported genesis; the packet state (receipts,
// acknowledgements, commitments, send counters) must survive the module's own export -> JSON -> import unchanged,
// otherwise the once-only guarantees of the history before the restart are void after it. Done on a throw-away
// branch of every chain in every reachable state; faithful round trips have identical futures, so comparing the raw
// store is equivalent to exploring the restarted chain.
func (s *Sys) checkRestart(add addFn) {
	for _, n := range s.w.Order {
		c := s.w.Chains[n]
		func() {
			defer func() {
				if r := recover(); r != nil {
					add("C01", "packet-state-export-import-panics", fmt.Sprintf("%s: %v", short[n], r))
				}
			}()
			ctx := c.ReadCtx()
			before := c.DumpStoreCtx(ctx, host.StoreKey)
			cdc := c.App.AppCodec()
			var gs xibctypes.GenesisState
			cdc.MustUnmarshalJSON(cdc.MustMarshalJSON(xibc.ExportGenesis(ctx, *c.App.XIBCKeeper)), &gs)
			st := ctx.KVStore(c.App.GetKey(host.StoreKey))
			for k := range before {
				st.Delete([]byte(k))
			}
			xibc.InitGenesis(ctx, *c.App.XIBCKeeper, false, &gs)
			after := c.DumpStoreCtx(ctx, host.StoreKey)
			for _, d := range world.DiffStores(before, after) {
				key := d[1:]
				// which guarantees the changed record carries: a receipt guards exactly-once delivery (C01) and with it
				// conservation (C03: a replayed receive mints twice); an acknowledgement its lifecycle (C05); a commitment
				// sequencing (C04), the ack lifecycle (C05) and refunds (C03); a send counter sequencing (C04)
				var props []string
				switch {
				case strings.HasPrefix(key, host.KeyPacketReceiptPrefix+"/"):
					props = []string{"C01", "C03"}
				case strings.HasPrefix(key, host.KeyPacketAckPrefix+"/"):
					props = []string{"C05", "C01"}
				case strings.HasPrefix(key, host.KeyPacketCommitmentPrefix+"/"):
					props = []string{"C04", "C05", "C03"}
				case strings.HasPrefix(key, host.KeyNextSeqSendPrefix+"/"):
					props = []string{"C04"}
				}
				for _, prop := range props {
					add(prop, "packet-state-changed-by-genesis-export-import/"+strings.SplitN(key, "/", 2)[0], fmt.Sprintf("chain %s restarted from its exported genesis: %s", short[n], d))
				}
			}
		}()
	}
}

// checkConservation: C03 invariants over the reference ledger.
func (s *Sys) checkConservation(add addFn) {
	type fam struct{ origin, other string } // origin chain of the erc20 family, other chain
	for _, o := range s.w.Order {
		for _, d := range s.w.Order {
			if o == d {
				continue
			}
			oc, dc := s.w.Chains[o], s.w.Chains[d]
			for _, what := range []string{"erc20", "native"} {
				var oriTok common.Address
				if what == "erc20" {
					oriTok = s.tok[short[o]+":erc20"]
				}
				bound := s.tok[short[d]+":bound:"+short[o]+":"+what]
				// reference: escrow = Σ(out, not refunded) − Σ(back transfers released at home)
				var escrow, minted int64
				for _, t := range s.tr {
					if t.Src == o && t.Dst == d && t.Token == oriTok && (what == "native" || t.Token != (common.Address{})) {
						refunded := t.Acked && t.AckCode != 0
						if !refunded {
							escrow += t.Amount
						}
						if t.Received && t.AckCode == 0 {
							minted += t.Amount
						}
					}
					if t.Src == d && t.Dst == o && t.Token == bound {
						// burned at send on d; released on o when executed successfully; re-minted on d when refunded
						minted -= t.Amount
						if t.Acked && t.AckCode != 0 {
							minted += t.Amount
						}
						if t.Received && t.AckCode == 0 {
							escrow -= t.Amount
						}
					}
				}
				gotOut := s.units(oriTok, oc.OutTokens(oriTok, d))
				if gotOut != escrow {
					add("C03", "out-tokens-differ-from-ledger", fmt.Sprintf("%s outTokens[%s %s][%s]=%d, ledger says %d in escrow; transfers=%s", short[o], what, oriTok.Hex(), short[d], gotOut, escrow, s.ledgerString()))
				}
				if what == "erc20" {
					held := s.units(oriTok, oc.ERC20Balance(oriTok, endpointcontract.EndpointContractAddress))
					// the endpoint escrows this token for every destination
					var all int64
					for _, d2 := range s.w.Order {
						if d2 != o {
							all += s.units(oriTok, oc.OutTokens(oriTok, d2))
						}
					}
					if held != all {
						add("C03", "escrow-balance-differs-from-out-tokens", fmt.Sprintf("%s endpoint holds %d of its erc20, outTokens sum %d", short[o], held, all))
					}
				}
				sup := s.units(bound, dc.ERC20Supply(bound))
				bind := s.units(bound, dc.BindingAmount(bound, o))
				if sup != minted || bind != minted {
					add("C03", "minted-differs-from-ledger", fmt.Sprintf("%s bound token of %s %s: totalSupply=%d bindings.amount=%d, ledger says %d minted; transfers=%s", short[d], short[o], what, sup, bind, minted, s.ledgerString()))
				}
			}
		}
	}
	// every token of every chain, towards every destination (known or not): what the endpoint says is locked
	// equals what the ledger says is in flight, and the endpoint / packet contract really hold those amounts
	for _, c := range s.w.Order {
		cc := s.w.Chains[c]
		for name, tk := range s.chainTokens(c) {
			var sum int64
			for _, d := range append(append([]string{}, s.w.Order...), "nochain-77") {
				if d == c {
					continue
				}
				got := s.units(tk, cc.OutTokens(tk, d))
				sum += got
				want := s.expectedLock(c, tk, d)
				if got != want {
					add("C03", "locked-tokens-differ-from-ledger", fmt.Sprintf("%s outTokens[%s][%s]=%d, ledger says %d; transfers=%s", short[c], name, shortOr(d), got, want, s.ledgerString()))
				}
			}
			if tk != (common.Address{}) {
				if held := s.units(tk, cc.ERC20Balance(tk, endpointcontract.EndpointContractAddress)); held != sum {
					add("C03", "escrow-balance-differs-from-out-tokens", fmt.Sprintf("%s endpoint holds %d of %s, outTokens sum %d", short[c], held, name, sum))
				}
				var fees int64
				for _, t := range s.tr {
					if t.Src == c && !t.Acked && t.Token == tk {
						fees += t.Fee
					}
				}
				if held := s.units(tk, cc.ERC20Balance(tk, packetcontract.PacketContractAddress)); held != fees {
					add("C03", "fee-escrow-differs-from-ledger", fmt.Sprintf("%s packet contract holds %d of %s, fees of un-acked packets %d", short[c], held, name, fees))
				}
			}
		}
	}
}

// chainTokens lists the tokens the harness knows on chain c (zero address = native coin).
func (s *Sys) chainTokens(c string) map[string]common.Address {
	out := map[string]common.Address{"native": {}}
	for k, v := range s.tok {
		if strings.HasPrefix(k, short[c]+":") {
			out[k] = v
		}
	}
	return out
}

// expectedLock is the ledger's view of outTokens[tk][d] on chain c.
func (s *Sys) expectedLock(c string, tk common.Address, d string) int64 {
	var lock int64
	homeOf := "" // origin chain of tk when tk is a bound token on c
	for k, v := range s.tok {
		if v == tk && strings.HasPrefix(k, short[c]+":bound:") {
			homeOf = long[strings.Split(k, ":")[2]]
		}
	}
	for _, t := range s.tr {
		if t.Src == c && t.Dst == d && t.Token == tk && d != homeOf {
			if !(t.Acked && t.AckCode != 0) {
				lock += t.Amount
			}
		}
		// a bound token of tk coming home releases the lock
		if t.Src == d && t.Dst == c && t.Received && t.AckCode == 0 {
			if b, ok := s.tok[shortOr(d)+":bound:"+short[c]+":"+map[bool]string{true: "native", false: "erc20"}[tk == (common.Address{})]]; ok && t.Token == b && (tk == (common.Address{}) || tk == s.tok[short[c]+":erc20"]) {
				lock -= t.Amount
			}
		}
	}
	return lock
}

func (s *Sys) ledgerString() string {
	var out []string
	for _, t := range s.tr {
		out = append(out, fmt.Sprintf("%s[%s %d recv=%v code=%d acked=%v]", t.ID, t.Kind, t.Amount, t.Received, t.AckCode, t.Acked))
	}
	return strings.Join(out, " ")
}

// ---- accessors used by other checks (C06, C13, C14) ----

// World returns the live world.
func (s *Sys) World() *world.World { return s.w }

// Token returns a token address by its harness name (e.g. "A:erc20", "B:bound:A:erc20").
func (s *Sys) Token(name string) common.Address { return s.tok[name] }

// Transfers lists the ids of the ledger.
func (s *Sys) Transfers() []string {
	var out []string
	for _, t := range s.tr {
		out = append(out, t.ID)
	}
	return out
}

// GenuineRecv builds the genuine receive message of a transfer, signed-for by the named account of the destination chain.
func (s *Sys) GenuineRecv(id, signer string) (*packettypes.MsgRecvPacket, *world.Chain) {
	t := s.find(id)
	msgs, _, dst, _ := s.recvMsg(t, "g1")
	m := msgs[0].(*packettypes.MsgRecvPacket)
	m.Signer = dst.Accounts[signer].Acc.String()
	return m, dst
}

// GenuineAck builds the genuine acknowledgement message of a transfer.
func (s *Sys) GenuineAck(id, signer string) (*packettypes.MsgAcknowledgement, *world.Chain) {
	t := s.find(id)
	msg, _, src := s.ackMsg(t, "g1")
	m := msg.(*packettypes.MsgAcknowledgement)
	m.Signer = src.Accounts[signer].Acc.String()
	return m, src
}

// FixtureViolation is what Run panics with: a monitor reported a violation while a check was building its fixture history.
type FixtureViolation struct {
	Op    string
	Viols []bfs.Viol
}

func (f FixtureViolation) String() string { return fmt.Sprintf("fixture op %q: %v", f.Op, f.Viols) }

// Run applies a scripted list of operations and panics (with a FixtureViolation) on any monitor violation: a history that
// every check takes for granted does not even run cleanly; the check's runner reports it as a violation, not as a crash.
func (s *Sys) Run(ops ...string) {
	for _, op := range ops {
		_, _, vs := s.Apply(op)
		if len(vs) > 0 {
			panic(FixtureViolation{op, vs})
		}
	}
}

// DumpStores dumps the monitored stores of a chain.
func DumpStores(c *world.Chain) map[string]map[string]string { return dumpAll(c) }

// DiffStores lists differing keys.
func DiffStores(a, b map[string]map[string]string) []string { return diffAll(a, b) }

// EmittedPackets returns the packet bytes the packet contract emitted for every send of the ledger.
func (s *Sys) EmittedPackets() [][]byte {
	var out [][]byte
	for _, t := range s.tr {
		out = append(out, t.Bytes)
	}
	return out
}

// RestartScript is a fixed three-chain history after which every chain holds commitments, receipts and acknowledgements
// on two paths; ScriptedViolations runs it and returns every monitor / invariant violation of the given property.
var RestartScript = []string{"send A B erc20 3", "send B A native 1", "send A B erc20+callrevert 1", "send C B erc20 1", "send A C erc20 1", "send C A native 1", "send B C native 1",
	"upd A B", "upd B A", "upd C A", "upd A C", "upd B C", "upd C B", "upd A B", "upd B A", "upd C A", "upd A C", "upd B C", "upd C B",
	"recv A>B#1 g1", "recv B>A#1 g1", "recv A>B#2 g1", "recv C>B#1 g1", "recv A>C#1 g1", "recv C>A#1 g1", "recv B>C#1 g1",
	"upd A B", "upd B A", "upd C A", "upd A C", "upd B C", "upd C B", "upd A B", "upd A C", "upd C B",
	"ack A>B#1 g1", "ack A>C#1 g1", "ack C>B#1 g1", "send A B native 1", "ack A>B#2 g1"}

type ScriptViol struct {
	bfs.Viol
	History []string
}

// ManySendsScript: eleven packets in flight on one path (sequences 1..11: keys of 1, 10 and 11 share a decimal prefix),
// then packets 1 and 2 are relayed and acknowledged while the others stay in flight, then packet 10.
var ManySendsScript = func() []string {
	var ops []string
	for i := 0; i < 11; i++ {
		ops = append(ops, "send A B erc20 1")
	}
	ops = append(ops, "upd B A", "upd B A", "recv A>B#1 g1", "recv A>B#2 g1", "upd A B", "upd A B", "ack A>B#1 g1", "ack A>B#2 g1",
		"recv A>B#10 g1", "upd A B", "upd A B", "ack A>B#10 g1", "recv A>B#11 g1")
	return ops
}()

// HookScript: packets whose call data reaches a system contract (Staking.delegate) with an argument that makes the
// native action fail after the EVM call itself succeeded, alone and next to an ordinary transfer.
var HookScript = []string{"send A B erc20+hookfail 1", "send A B erc20 3", "upd B A", "upd B A", "recv A>B#1 g1", "recv A>B#2 g1", "upd A B", "upd A B", "ack A>B#1 g1", "ack A>B#2 g1"}

// ForgedLogScript: between two real sends a user makes an ordinary contract emit a look-alike PacketSent log.
var ForgedLogScript = []string{"send A B erc20 3", "send A B forgedlog 1", "send A B erc20 1", "send A C forgedlog 1"}

// UpgradeScript: traffic, then the software upgrade on the sending chain.
var UpgradeScript = []string{"send A B erc20 3", "send A B native 1", "send A C erc20 1", "upd B A", "upd B A", "recv A>B#1 g1", "upgrade A"}

// EmptyRelayerScript: packets with a fee and with a reverting call are delivered by the relayer that registered an empty
// address for the source chain; their acknowledgements name nobody the source chain knows (it must refuse them whole:
// no status, no refund, no fee to anybody — in particular not to a relayer of some other chain).
// SharedAddressScript: a packet with a fee is delivered by the relayer registered under the shared address; the fee of
// its acknowledgement belongs to that relayer and to nobody else holding the same address for another chain.
var SharedAddressScript = []string{"send A B feeonly1 1", "upd B A", "upd A B", "upd B A", "recv A>B#1 g6", "upd A B", "upd B A", "upd A B", "ack A>B#1 g1"}

var EmptyRelayerScript = []string{"send A B feeonly1 1", "send A B erc20+callrevert 1", "upd B A", "upd A B", "upd B A", "recv A>B#1 g4", "recv A>B#2 g4", "upd A B", "upd B A", "upd A B", "ack A>B#1 g1", "ack A>B#2 g1", "ack A>B#1 g2"}

// ExportRestartScripts: traffic in every stage (sent, received, acknowledged, refunded, in flight on two paths), then
// the sending chain — in the second script the receiving chain — is restarted from its exported genesis.
var ExportRestartScriptA = []string{"send A B erc20 3", "send A B native 1", "send A C erc20 1", "send A B erc20+callrevert 1", "send B A native 1", "upd B A", "upd A B", "upd B A",
	"recv A>B#1 g1", "recv A>B#2 g1", "recv A>B#3 g1", "upd A B", "upd B A", "upd A B", "ack A>B#1 g1", "ack A>B#3 g1", "send A B feeonly1 1", "restart A"}
var ExportRestartScriptB = []string{"send A B erc20 3", "send A B native 1", "send C B erc20 1", "send B A native 1", "upd B A", "upd A B", "upd B A", "upd B C", "upd C B", "upd B C",
	"recv A>B#1 g1", "recv C>B#1 g1", "send B A back 1", "restart B"}

// DelayScript runs on clients with a delay period of 12 s (blocks are 5 s apart): every message is offered in the block
// after the update that makes it provable (must be refused), one block later (refused) and one more block later.
var DelayScript = []string{"send A B feeonly1 1", "send A B erc20+callrevert 1", "upd B A", "upd A B", "upd B A",
	"recv A>B#1 g1", "recv A>B#1 g1", "recv A>B#1 g1", "recv A>B#2 g1", "upd A B", "upd B A", "upd A B",
	"ack A>B#1 g1", "ack A>B#1 g1", "ack A>B#1 g1", "ack A>B#2 g1", "ack A>B#2 g2"}

// CallbackScript: a transfer whose sender named a callback contract; the callback's call into the staking system contract
// succeeds in the EVM and fails natively, so the acknowledgement transaction fails as a whole, every time.
var CallbackScript = []string{"send A B erc20+cbfail 1", "send A B erc20 1", "upd B A", "upd A B", "upd B A", "recv A>B#1 g1", "recv A>B#2 g1", "upd A B", "upd B A", "upd A B",
	"ack A>B#1 g1", "ack A>B#2 g1", "ack A>B#1 g2"}

func ScriptedViolations(prop string) (steps int, out []ScriptViol) {
	seen := map[string]bool{}
	{
		s := New(Config{Chains: 3, MaxSends: 14, Prop: prop, TimeDelay: 12_000_000_000})
		accepted := 0
		for i, op := range DelayScript {
			_, class, vs := s.Apply(op)
			vs = append(vs, s.Check()...)
			steps++
			if strings.Contains(class, "accepted") && (strings.HasPrefix(op, "recv") || strings.HasPrefix(op, "ack")) {
				accepted++
			}
			for _, v := range vs {
				if strings.HasPrefix(v.Sig, prop+":") && !seen[v.Sig] {
					seen[v.Sig] = true
					out = append(out, ScriptViol{v, append([]string{"(tendermint clients with a delay period of 12 s)"}, DelayScript[:i+1]...)})
				}
			}
		}
		if accepted < 4 {
			panic(fmt.Sprintf("delay script: only %d relayed messages accepted after the delay period (the script is vacuous)", accepted))
		}
	}
	for _, script := range [][]string{RestartScript, ManySendsScript, HookScript, ForgedLogScript, UpgradeScript, EmptyRelayerScript, SharedAddressScript, ExportRestartScriptA, ExportRestartScriptB, CallbackScript} {
		s := New(Config{Chains: 3, MaxSends: 14, Prop: prop})
		for i, op := range script {
			_, _, vs := s.Apply(op)
			vs = append(vs, s.Check()...)
			steps++
			for _, v := range vs {
				if strings.HasPrefix(v.Sig, prop+":") && !seen[v.Sig] {
					seen[v.Sig] = true
					out = append(out, ScriptViol{v, append([]string{}, script[:i+1]...)})
				}
			}
		}
	}
	return
}
