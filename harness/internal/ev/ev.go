// Package ev is the reporting side of every check: violations (with replay
// files and known-finding matching), coverage counters and the evidence file.
package ev

import (
	"encoding/json"
	"fmt"
	"os"
	"path/filepath"
	"sort"
	"strconv"
	"sync"
	"time"
)

// Root is the verification directory.
var Root = func() string {
	if r := os.Getenv("VERIF_ROOT"); r != "" {
		return r
	}
	return "/verif"
}()

type finding struct {
	Property  string `json:"property"`
	Status    string `json:"status"` // "known" | "fixed"
	Signature string `json:"signature"`
	What      string `json:"what"`
	Commit    string `json:"commit,omitempty"`
}

// Run collects what one check execution covered.
type Run struct {
	ID    string
	Tier  string
	Level string
	Seed  int64
	start time.Time

	mu         sync.Mutex
	violations []violation
	known      map[string]string // signature -> what (status known)
	knownHit   map[string]bool
	Counters   map[string]int64
	Outcomes   map[string]int64
	Samples    []interface{}
	maxSamples int
	Notes      []string
	incomplete string
}

type violation struct {
	Sig    string
	Detail string
	Replay interface{}
}

// Start begins a run; tier comes from the command line (already parsed by caller).
func Start(id, tier, level string) *Run {
	seed, _ := strconv.ParseInt(os.Getenv("VERIF_SEED"), 10, 64)
	r := &Run{ID: id, Tier: tier, Level: level, Seed: seed, start: time.Now(),
		known: map[string]string{}, knownHit: map[string]bool{}, Counters: map[string]int64{}, Outcomes: map[string]int64{}, maxSamples: 6}
	bz, err := os.ReadFile(filepath.Join(Root, "known_findings.json"))
	if err == nil {
		var fs []finding
		if json.Unmarshal(bz, &fs) == nil {
			for _, f := range fs {
				if f.Property == id && f.Status == "known" {
					r.known[f.Signature] = f.What
				}
			}
		}
	}
	return r
}

// Count adds to a named counter.
func (r *Run) Count(name string, n int64) {
	r.mu.Lock()
	r.Counters[name] += n
	r.mu.Unlock()
}

// Outcome records one occurrence of a distinct outcome class (vacuity guard).
func (r *Run) Outcome(class string) {
	r.mu.Lock()
	r.Outcomes[class]++
	r.mu.Unlock()
}

// Sample keeps a few explored cases verbatim for the evidence file.
func (r *Run) Sample(s interface{}) {
	r.mu.Lock()
	if len(r.Samples) < r.maxSamples {
		r.Samples = append(r.Samples, s)
	}
	r.mu.Unlock()
}

// Incomplete marks the run as not exhaustive (cap or deadline), with the reason.
func (r *Run) Incomplete(why string) {
	r.mu.Lock()
	if r.incomplete == "" {
		r.incomplete = why
	}
	r.mu.Unlock()
}

// Note adds a free-text note to the evidence.
func (r *Run) Note(s string) {
	r.mu.Lock()
	r.Notes = append(r.Notes, s)
	r.mu.Unlock()
}

// Violation records a property violation. sig identifies the specific failing
// input / call site / history class (matched against known_findings.json).
func (r *Run) Violation(sig, detail string, replay interface{}) {
	r.mu.Lock()
	defer r.mu.Unlock()
	if _, ok := r.known[sig]; ok {
		r.knownHit[sig] = true
		return
	}
	for _, v := range r.violations {
		if v.Sig == sig {
			return // one replay per signature
		}
	}
	r.violations = append(r.violations, violation{sig, detail, replay})
}

// NumViolations is the number of distinct unknown violations so far.
func (r *Run) NumViolations() int {
	r.mu.Lock()
	defer r.mu.Unlock()
	return len(r.violations)
}

// Coverage is the measured part the caller provides at the end.
type Coverage struct {
	States, Transitions, Traces int64 // model_checking
	Evaluations, Distinct       int64 // exploration
	Rule                        string
	Exhaustive                  bool
	Bounds                      map[string]interface{}
	Assumptions                 []string
}

// Finish writes the evidence file, prints the verdict lines and returns the exit code.
func (r *Run) Finish(c Coverage) int {
	r.mu.Lock()
	defer r.mu.Unlock()
	cov := map[string]interface{}{}
	if r.Level == "model_checking" {
		cov["states"] = c.States
		cov["transitions"] = c.Transitions
		cov["traces_validated_against_impl"] = c.Traces
	}
	if c.Evaluations > 0 || r.Level != "model_checking" {
		cov["evaluations"] = c.Evaluations
		cov["distinct_nontrivial"] = c.Distinct
	}
	cov["rule"] = c.Rule
	samples := r.Samples
	if len(samples) == 0 {
		samples = []interface{}{"(no sample recorded)"}
	}
	cov["samples"] = samples
	exhaustive := c.Exhaustive && r.incomplete == ""
	cov["exhaustive"] = exhaustive
	if r.incomplete != "" {
		cov["incomplete_reason"] = r.incomplete
	}
	cov["bounds"] = c.Bounds
	cov["counters"] = r.Counters
	cov["outcomes"] = r.Outcomes
	if len(r.Notes) > 0 {
		cov["notes"] = r.Notes
	}
	var kf []string
	for s := range r.knownHit {
		kf = append(kf, s)
	}
	sort.Strings(kf)
	cov["known_findings_hit"] = kf

	evd := map[string]interface{}{
		"property_id": r.ID, "tier": r.Tier, "seed": r.Seed, "level": r.Level,
		"coverage": cov, "assumptions": c.Assumptions,
		"wall_s": time.Since(r.start).Seconds(), "violations": len(r.violations),
	}
	os.MkdirAll(filepath.Join(Root, "evidence"), 0o755)
	bz, _ := json.MarshalIndent(evd, "", " ")
	if err := os.WriteFile(filepath.Join(Root, "evidence", r.ID+".json"), bz, 0o644); err != nil {
		fmt.Println("HARNESS-ERROR: cannot write evidence:", err)
		return 2
	}
	for _, s := range kf {
		fmt.Printf("KNOWN-FINDING: property=%s %s -- %s\n", r.ID, s, r.known[s])
	}
	fmt.Printf("%s %s: level=%s exhaustive=%v wall=%.1fs counters=%v\n", r.ID, r.Tier, r.Level, exhaustive, time.Since(r.start).Seconds(), r.Counters)
	okeys := make([]string, 0, len(r.Outcomes))
	for k := range r.Outcomes {
		okeys = append(okeys, k)
	}
	sort.Strings(okeys)
	for _, k := range okeys {
		fmt.Printf("  outcome %-60s %d\n", k, r.Outcomes[k])
	}
	if len(r.violations) == 0 {
		fmt.Printf("%s: property held on everything explored\n", r.ID)
		return 0
	}
	dir := filepath.Join(Root, "replays", r.ID)
	os.MkdirAll(dir, 0o755)
	for i, v := range r.violations {
		p := filepath.Join(dir, fmt.Sprintf("%s-%d.json", r.Tier, i))
		bz, _ := json.MarshalIndent(map[string]interface{}{"property": r.ID, "signature": v.Sig, "detail": v.Detail, "replay": v.Replay}, "", " ")
		os.WriteFile(p, bz, 0o644)
		fmt.Printf("  violation signature: %s\n  detail: %s\n", v.Sig, v.Detail)
		fmt.Printf("VIOLATION property=%s replay=%s\n", r.ID, p)
	}
	return 1
}

// Repo is the repository the harness was built against (/repo unless VERIF_REPO points a background sweep at a snapshot).
func Repo() string {
	if r := os.Getenv("VERIF_REPO"); r != "" {
		return r
	}
	return "/repo"
}
