// Package world is a deterministic multi-chain fixture over the real teleport
// application: every chain is a real app.Teleport over a MemDB, driven through
// ABCI (BeginBlock / DeliverTx / EndBlock / Commit) with deterministic keys,
// deterministic transaction bytes and an explicit global clock.
package world

import (
	"crypto/sha256"
	"encoding/json"
	"fmt"
	"math/big"
	"sort"
	"strings"
	"time"

	abci "github.com/tendermint/tendermint/abci/types"
	tmcrypto "github.com/tendermint/tendermint/crypto"
	tmed "github.com/tendermint/tendermint/crypto/ed25519"
	"github.com/tendermint/tendermint/crypto/tmhash"
	"github.com/tendermint/tendermint/libs/log"
	tmproto "github.com/tendermint/tendermint/proto/tendermint/types"
	tmprotoversion "github.com/tendermint/tendermint/proto/tendermint/version"
	tmtypes "github.com/tendermint/tendermint/types"
	"github.com/tendermint/tendermint/version"
	dbm "github.com/tendermint/tm-db"

	"github.com/cosmos/cosmos-sdk/client"
	"github.com/cosmos/cosmos-sdk/codec"
	codectypes "github.com/cosmos/cosmos-sdk/codec/types"
	cryptocodec "github.com/cosmos/cosmos-sdk/crypto/codec"
	cryptotypes "github.com/cosmos/cosmos-sdk/crypto/types"
	"github.com/cosmos/cosmos-sdk/simapp"
	sdk "github.com/cosmos/cosmos-sdk/types"
	"github.com/cosmos/cosmos-sdk/types/tx/signing"
	authsigning "github.com/cosmos/cosmos-sdk/x/auth/signing"
	authtypes "github.com/cosmos/cosmos-sdk/x/auth/types"
	banktypes "github.com/cosmos/cosmos-sdk/x/bank/types"
	stakingtypes "github.com/cosmos/cosmos-sdk/x/staking/types"

	"github.com/ethereum/go-ethereum/common"
	ethtypes "github.com/ethereum/go-ethereum/core/types"

	"github.com/tharsis/ethermint/crypto/ethsecp256k1"
	"github.com/tharsis/ethermint/encoding"
	"github.com/tharsis/ethermint/tests"
	evmtypes "github.com/tharsis/ethermint/x/evm/types"
	feemarkettypes "github.com/tharsis/ethermint/x/feemarket/types"

	"github.com/teleport-network/teleport/app"
	teletypes "github.com/teleport-network/teleport/types"
	xibctmtypes "github.com/teleport-network/teleport/x/xibc/clients/light-clients/tendermint/types"
	clienttypes "github.com/teleport-network/teleport/x/xibc/core/client/types"
	ethermint "github.com/tharsis/ethermint/types"
)

// StartTime is the genesis clock of every world.
var StartTime = time.Date(2020, 1, 2, 0, 0, 0, 0, time.UTC)

// BlockStep is the clock increment per committed block.
const BlockStep = 5 * time.Second

const GasLimit = uint64(25_000_000)

// Account is a deterministic ethsecp256k1 account.
type Account struct {
	Name string
	Priv *ethsecp256k1.PrivKey
	Acc  sdk.AccAddress
	Eth  common.Address
}

// NewAccount derives an account from a name.
func NewAccount(name string) Account {
	h := sha256.Sum256([]byte("verif-account/" + name))
	priv := &ethsecp256k1.PrivKey{Key: h[:]}
	addr := priv.PubKey().Address().Bytes()
	return Account{Name: name, Priv: priv, Acc: sdk.AccAddress(addr), Eth: common.BytesToAddress(addr)}
}

// PV is a deterministic tendermint validator key.
type PV struct{ Key tmed.PrivKey }

func NewPV(seed string) PV { return PV{Key: tmed.GenPrivKeyFromSecret([]byte("verif-val/" + seed))} }

func (pv PV) GetPubKey() (tmcrypto.PubKey, error) { return pv.Key.PubKey(), nil }
func (pv PV) SignVote(chainID string, vote *tmproto.Vote) error {
	sig, err := pv.Key.Sign(tmtypes.VoteSignBytes(chainID, vote))
	if err != nil {
		return err
	}
	vote.Signature = sig
	return nil
}
func (pv PV) SignProposal(chainID string, p *tmproto.Proposal) error {
	sig, err := pv.Key.Sign(tmtypes.ProposalSignBytes(chainID, p))
	if err != nil {
		return err
	}
	p.Signature = sig
	return nil
}

// TxResult is the observable outcome of one delivered transaction.
type TxResult struct {
	Code      uint32
	Codespace string
	Log       string
	GasUsed   int64
	Events    []abci.Event
	Data      []byte
	VMError   string // for MsgEthereumTx: the EVM error (revert) if any
	Ret       []byte
	EthLogs   []*ethtypes.Log
}

func (r TxResult) OK() bool { return r.Code == 0 && r.VMError == "" }

// Chain is one real teleport application with its block driver.
type Chain struct {
	Name     string // tendermint chain id == xibc chain name
	App      *app.Teleport
	DB       *dbm.MemDB
	TxConfig client.TxConfig

	Vals    *tmtypes.ValidatorSet
	Signers []tmtypes.PrivValidator

	Accounts map[string]Account

	// Headers[h] is the signed tendermint header of committed block h.
	Headers map[int64]*xibctmtypes.Header
	// AppHashAfter[h] is the app hash after committing block h.
	AppHashAfter map[int64][]byte
	LastTime     time.Time // time of the last committed block

	inBlock bool
	cur     tmproto.Header

	// Trace collects, when enabled, one line per delivered transaction and per committed block (C14).
	Trace *[]string
}

// Options configures genesis.
type Options struct {
	Accounts        []string             // names of funded accounts
	Balance         int64                // stake balance per account (default 1e14)
	NoGenesisCommit bool                 // do not commit after InitChain: the first block is height 1, as on a real network (the repository's fixture commits and starts at 2)
	ExtraCoins      map[string]sdk.Coins // extra balances per account name
	NumVals         int                  // default 1
	GenesisMod      func(cdc codec.Codec, gs map[string]json.RawMessage)
}

func init() {
	sdk.DefaultPowerReduction = teletypes.PowerReduction
}

func newApp(db dbm.DB, load bool) *app.Teleport {
	return app.NewTeleport(log.NewNopLogger(), db, nil, load, map[int64]bool{}, app.DefaultNodeHome, 5,
		encoding.MakeConfig(app.ModuleBasics), simapp.EmptyAppOptions{})
}

// GlobalTrace, when set, is attached to every chain created afterwards (C14 scenarios).
var GlobalTrace *[]string

// NewChain creates a chain, runs InitChain and commits block 1 at StartTime.
func NewChain(name string, now time.Time, opt Options) *Chain {
	if opt.Balance == 0 {
		opt.Balance = 100000000000000
	}
	if opt.NumVals == 0 {
		opt.NumVals = 1
	}
	c := &Chain{
		Name:         name,
		DB:           dbm.NewMemDB(),
		Accounts:     map[string]Account{},
		Headers:      map[int64]*xibctmtypes.Header{},
		AppHashAfter: map[int64][]byte{},
	}
	c.App = newApp(c.DB, true)
	c.TxConfig = encoding.MakeConfig(app.ModuleBasics).TxConfig
	c.Trace = GlobalTrace

	// validators
	var vals []*tmtypes.Validator
	pvByAddr := map[string]tmtypes.PrivValidator{}
	for i := 0; i < opt.NumVals; i++ {
		pv := NewPV(fmt.Sprintf("%s/%d", name, i))
		pk, _ := pv.GetPubKey()
		v := tmtypes.NewValidator(pk, 1)
		vals = append(vals, v)
		pvByAddr[string(v.Address)] = pv
	}
	c.Vals = tmtypes.NewValidatorSet(vals)
	for _, v := range c.Vals.Validators {
		c.Signers = append(c.Signers, pvByAddr[string(v.Address)])
	}

	genesisState := app.NewDefaultGenesisState()
	cdc := c.App.AppCodec()

	var genAccs []authtypes.GenesisAccount
	var balances []banktypes.Balance
	names := append([]string{}, opt.Accounts...)
	for _, n := range names {
		a := NewAccount(n)
		c.Accounts[n] = a
		genAccs = append(genAccs, authtypes.NewBaseAccount(a.Acc, a.Priv.PubKey(), 0, 0))
		coins := sdk.NewCoins(sdk.NewCoin(sdk.DefaultBondDenom, sdk.NewInt(opt.Balance)))
		if ex, ok := opt.ExtraCoins[n]; ok {
			coins = coins.Add(ex...)
		}
		balances = append(balances, banktypes.Balance{Address: a.Acc.String(), Coins: coins})
	}
	authGenesis := authtypes.NewGenesisState(authtypes.DefaultParams(), genAccs)
	genesisState[authtypes.ModuleName] = cdc.MustMarshalJSON(authGenesis)

	bondAmt := sdk.NewInt(1e16)
	var validators []stakingtypes.Validator
	var delegations []stakingtypes.Delegation
	for _, val := range c.Vals.Validators {
		pk, err := cryptocodec.FromTmPubKeyInterface(val.PubKey)
		must(err)
		pkAny, err := codectypes.NewAnyWithValue(pk)
		must(err)
		validators = append(validators, stakingtypes.Validator{
			OperatorAddress:   sdk.ValAddress(val.Address).String(),
			ConsensusPubkey:   pkAny,
			Status:            stakingtypes.Bonded,
			Tokens:            bondAmt,
			DelegatorShares:   bondAmt.ToDec(), // 1:1 exchange rate
			Description:       stakingtypes.Description{},
			UnbondingTime:     time.Unix(0, 0).UTC(),
			Commission:        stakingtypes.NewCommission(sdk.ZeroDec(), sdk.ZeroDec(), sdk.ZeroDec()),
			MinSelfDelegation: sdk.ZeroInt(),
		})
		delegations = append(delegations, stakingtypes.NewDelegation(genAccs[0].GetAddress(), val.Address.Bytes(), bondAmt.ToDec()))
	}
	stakingGenesis := stakingtypes.NewGenesisState(stakingtypes.DefaultParams(), validators, delegations)
	genesisState[stakingtypes.ModuleName] = cdc.MustMarshalJSON(stakingGenesis)

	evmGenesis := evmtypes.DefaultGenesisState()
	evmGenesis.Params.EvmDenom = sdk.DefaultBondDenom
	genesisState[evmtypes.ModuleName] = cdc.MustMarshalJSON(evmGenesis)

	totalSupply := sdk.NewCoins()
	for _, b := range balances {
		totalSupply = totalSupply.Add(b.Coins...)
	}
	for range validators {
		totalSupply = totalSupply.Add(sdk.NewCoin(sdk.DefaultBondDenom, bondAmt))
	}
	balances = append(balances, banktypes.Balance{
		Address: authtypes.NewModuleAddress(stakingtypes.BondedPoolName).String(),
		Coins:   sdk.Coins{sdk.NewCoin(sdk.DefaultBondDenom, bondAmt.MulRaw(int64(len(validators))))},
	})
	bankGenesis := banktypes.NewGenesisState(banktypes.DefaultGenesisState().Params, balances, totalSupply, []banktypes.Metadata{})
	genesisState[banktypes.ModuleName] = cdc.MustMarshalJSON(bankGenesis)

	fm := feemarkettypes.DefaultGenesisState()
	fm.Params.NoBaseFee = true // gas price 0 transactions; fee flows are not what is studied
	genesisState[feemarkettypes.ModuleName] = cdc.MustMarshalJSON(fm)

	if opt.GenesisMod != nil {
		opt.GenesisMod(cdc, genesisState)
	}

	stateBytes, err := json.Marshal(genesisState)
	must(err)
	c.App.InitChain(abci.RequestInitChain{
		ChainId:         "teleport_9000-1",
		Validators:      []abci.ValidatorUpdate{},
		ConsensusParams: app.DefaultConsensusParams,
		AppStateBytes:   stateBytes,
		Time:            now,
	})
	if !opt.NoGenesisCommit {
		c.App.Commit() // genesis commit, as the repository's fixture does (version 1)
	}
	c.LastTime = now
	return c
}

func must(err error) {
	if err != nil {
		panic(err)
	}
}

// Height of the last committed block.
func (c *Chain) Height() int64 { return c.App.LastBlockHeight() }

// Begin opens block Height()+1 at the given time.
func (c *Chain) Begin(now time.Time) {
	if c.inBlock {
		panic("Begin: block already open")
	}
	c.cur = tmproto.Header{
		ChainID:            c.Name,
		Height:             c.App.LastBlockHeight() + 1,
		Time:               now.UTC(),
		AppHash:            c.App.LastCommitID().Hash,
		ValidatorsHash:     c.Vals.Hash(),
		NextValidatorsHash: c.Vals.Hash(),
		ProposerAddress:    c.Vals.Proposer.Address,
	}
	c.App.BeginBlock(abci.RequestBeginBlock{Header: c.cur})
	c.inBlock = true
}

// End closes and commits the open block and records its signed header.
func (c *Chain) End() {
	if !c.inBlock {
		panic("End: no open block")
	}
	c.App.EndBlock(abci.RequestEndBlock{Height: c.cur.Height})
	c.App.Commit()
	c.inBlock = false
	h := c.cur.Height
	c.AppHashAfter[h] = append([]byte{}, c.App.LastCommitID().Hash...)
	c.Headers[h] = c.SignedHeader(c.Name, h, c.cur.Time, c.cur.AppHash, c.Vals, c.Signers)
	c.LastTime = c.cur.Time
	if c.Trace != nil {
		*c.Trace = append(*c.Trace, fmt.Sprintf("%s block h=%d app=%x", c.Name, h, c.App.LastCommitID().Hash))
	}
}

// Block runs one complete block with the given transactions.
func (c *Chain) Block(now time.Time, txs ...[]byte) []TxResult {
	c.Begin(now)
	var out []TxResult
	for _, tx := range txs {
		out = append(out, c.Deliver(tx))
	}
	c.End()
	return out
}

// Deliver delivers raw tx bytes into the open block.
func (c *Chain) Deliver(txBytes []byte) TxResult {
	if !c.inBlock {
		panic("Deliver: no open block")
	}
	res := c.App.DeliverTx(abci.RequestDeliverTx{Tx: txBytes})
	if c.Trace != nil {
		// Attribute order inside one event is normalised: cosmos-sdk v0.45 builds typed events by iterating a Go map
		// (TypedEventToEvent), and tendermint 0.34 keeps events and logs out of the results hash. The ABCI log of a
		// successful tx is a rendering of the same events and is left out for the same reason.
		h := sha256.New()
		for _, e := range res.Events {
			var attrs []string
			for _, a := range e.Attributes {
				attrs = append(attrs, fmt.Sprintf("%s=%s;", a.Key, a.Value))
			}
			sort.Strings(attrs)
			fmt.Fprintf(h, "%s{%s}", e.Type, strings.Join(attrs, ""))
		}
		logPart := []byte(res.Log)
		if res.Code == 0 {
			logPart = nil
		}
		*c.Trace = append(*c.Trace, fmt.Sprintf("%s tx h=%d code=%d/%s gas=%d/%d data=%x log=%x events=%x", c.Name, c.cur.Height, res.Code, res.Codespace, res.GasWanted, res.GasUsed, sha256.Sum256(res.Data), sha256.Sum256(logPart), h.Sum(nil)))
	}
	out := TxResult{Code: res.Code, Codespace: res.Codespace, Log: res.Log, GasUsed: res.GasUsed, Events: res.Events, Data: res.Data}
	if res.Code == 0 && len(res.Data) > 0 {
		if r, err := evmtypes.DecodeTxResponse(res.Data); err == nil && r != nil && (r.Hash != "" || r.VmError != "" || len(r.Logs) > 0) {
			out.VMError = r.VmError
			out.Ret = r.Ret
			out.EthLogs = evmtypes.LogsToEthereum(r.Logs)
		}
	}
	return out
}

// Ctx returns a context for the open block (deliver state) if a block is open,
// otherwise a read context over the last committed state.
func (c *Chain) Ctx() sdk.Context {
	if c.inBlock {
		return c.App.BaseApp.NewContext(false, c.cur)
	}
	return c.ReadCtx()
}

// ReadCtx is a throw-away cached context over the last committed state.
func (c *Chain) ReadCtx() sdk.Context {
	h := tmproto.Header{ChainID: c.Name, Height: c.App.LastBlockHeight(), Time: c.LastTime, ProposerAddress: c.Vals.Proposer.Address}
	if c.inBlock {
		h = c.cur
		ctx := c.App.BaseApp.NewContext(false, h)
		cctx, _ := ctx.CacheContext()
		return cctx
	}
	ctx := c.App.BaseApp.NewContext(true, h)
	cctx, _ := ctx.CacheContext()
	c.App.EvmKeeper.WithChainID(cctx)
	return cctx
}

// CosmosTx builds a deterministic signed cosmos transaction (fixed memo, zero fee).
func (c *Chain) CosmosTx(signer Account, msgs ...sdk.Msg) []byte {
	ctx := c.ReadCtx()
	acc := c.App.AccountKeeper.GetAccount(ctx, signer.Acc)
	var accNum, seq uint64
	if acc != nil {
		accNum, seq = acc.GetAccountNumber(), acc.GetSequence()
	}
	return c.CosmosTxSeq(signer, accNum, seq, msgs...)
}

func (c *Chain) CosmosTxSeq(signer Account, accNum, seq uint64, msgs ...sdk.Msg) []byte {
	txb := c.TxConfig.NewTxBuilder()
	must(txb.SetMsgs(msgs...))
	txb.SetMemo("verif")
	txb.SetFeeAmount(sdk.Coins{sdk.NewInt64Coin(sdk.DefaultBondDenom, 0)})
	txb.SetGasLimit(GasLimit)
	signMode := c.TxConfig.SignModeHandler().DefaultMode()
	var priv cryptotypes.PrivKey = signer.Priv
	sig := signing.SignatureV2{
		PubKey:   priv.PubKey(),
		Data:     &signing.SingleSignatureData{SignMode: signMode},
		Sequence: seq,
	}
	must(txb.SetSignatures(sig))
	signerData := authsigning.SignerData{ChainID: c.Name, AccountNumber: accNum, Sequence: seq}
	signBytes, err := c.TxConfig.SignModeHandler().GetSignBytes(signMode, signerData, txb.GetTx())
	must(err)
	sigBz, err := priv.Sign(signBytes)
	must(err)
	sig.Data.(*signing.SingleSignatureData).Signature = sigBz
	must(txb.SetSignatures(sig))
	bz, err := c.TxConfig.TxEncoder()(txb.GetTx())
	must(err)
	return bz
}

// EthTx builds a signed MsgEthereumTx (gas price 0) calling `to` (nil = create).
func (c *Chain) EthTx(signer Account, to *common.Address, amount *big.Int, data []byte) []byte {
	ctx := c.ReadCtx()
	nonce := c.App.EvmKeeper.GetNonce(ctx, signer.Eth)
	return c.EthTxNonce(signer, nonce, to, amount, data)
}

func (c *Chain) EthTxNonce(signer Account, nonce uint64, to *common.Address, amount *big.Int, data []byte) []byte {
	chainID := c.EvmChainID()
	if amount == nil {
		amount = big.NewInt(0)
	}
	tx := evmtypes.NewTx(chainID, nonce, to, amount, GasLimit, big.NewInt(0), nil, nil, data, nil)
	tx.From = signer.Eth.Hex()
	must(tx.Sign(ethtypes.LatestSignerForChainID(chainID), tests.NewSigner(signer.Priv)))
	txb := c.TxConfig.NewTxBuilder()
	sdkTx, err := tx.BuildTx(txb, sdk.DefaultBondDenom)
	must(err)
	bz, err := c.TxConfig.TxEncoder()(sdkTx)
	must(err)
	return bz
}

// EvmChainID is the EIP-155 chain id derived from the chain name.
func (c *Chain) EvmChainID() *big.Int {
	id, err := ethermint.ParseChainID(c.Name)
	must(err)
	return id
}

// SignedHeader creates a signed tendermint header the way the repository's fixture does.
func (c *Chain) SignedHeader(chainID string, height int64, ts time.Time, appHash []byte,
	valSet *tmtypes.ValidatorSet, signers []tmtypes.PrivValidator) *xibctmtypes.Header {
	return MakeSignedHeader(chainID, height, ts, appHash, valSet, valSet, signers)
}

// MakeSignedHeader builds and signs a tendermint header.
func MakeSignedHeader(chainID string, height int64, ts time.Time, appHash []byte,
	valSet, nextValSet *tmtypes.ValidatorSet, signers []tmtypes.PrivValidator) *xibctmtypes.Header {
	tmHeader := tmtypes.Header{
		Version:            tmprotoversion.Consensus{Block: version.BlockProtocol, App: 2},
		ChainID:            chainID,
		Height:             height,
		Time:               ts,
		LastBlockID:        makeBlockID(make([]byte, tmhash.Size), 10_000, make([]byte, tmhash.Size)),
		LastCommitHash:     tmhash.Sum([]byte("last_commit_hash")),
		DataHash:           tmhash.Sum([]byte("data_hash")),
		ValidatorsHash:     valSet.Hash(),
		NextValidatorsHash: nextValSet.Hash(),
		ConsensusHash:      tmhash.Sum([]byte("consensus_hash")),
		AppHash:            appHash,
		LastResultsHash:    tmhash.Sum([]byte("last_results_hash")),
		EvidenceHash:       tmhash.Sum([]byte("evidence_hash")),
		ProposerAddress:    valSet.Proposer.Address,
	}
	hhash := tmHeader.Hash()
	blockID := makeBlockID(hhash, 3, tmhash.Sum([]byte("part_set")))
	voteSet := tmtypes.NewVoteSet(chainID, height, 1, tmproto.PrecommitType, valSet)
	commit, err := tmtypes.MakeCommit(blockID, height, 1, voteSet, signers, ts)
	must(err)
	vsProto, err := valSet.ToProto()
	must(err)
	return &xibctmtypes.Header{
		SignedHeader: &tmproto.SignedHeader{Header: tmHeader.ToProto(), Commit: commit.ToProto()},
		ValidatorSet: vsProto,
	}
}

func makeBlockID(hash []byte, partSetSize uint32, partSetHash []byte) tmtypes.BlockID {
	return tmtypes.BlockID{Hash: hash, PartSetHeader: tmtypes.PartSetHeader{Total: partSetSize, Hash: partSetHash}}
}

// UpdateHeader returns the header of committed block h prepared for a client trusting `trusted`.
func (c *Chain) UpdateHeader(h int64, trusted clienttypes.Height) *xibctmtypes.Header {
	src := c.Headers[h]
	if src == nil {
		panic(fmt.Sprintf("no header %d on %s", h, c.Name))
	}
	tv, err := c.Vals.ToProto()
	must(err)
	cp := *src
	cp.TrustedHeight = trusted
	cp.TrustedValidators = tv
	return &cp
}

// Revision is the revision number parsed from the chain name.
func (c *Chain) Revision() uint64 { return clienttypes.ParseChainID(c.Name) }

// Clone copies the committed state into an independent chain (no open block allowed).
func (c *Chain) Clone() *Chain {
	if c.inBlock {
		panic("Clone: open block")
	}
	db := dbm.NewMemDB()
	it, err := c.DB.Iterator(nil, nil)
	must(err)
	for ; it.Valid(); it.Next() {
		k := append([]byte{}, it.Key()...)
		v := append([]byte{}, it.Value()...)
		must(db.Set(k, v))
	}
	it.Close()
	n := &Chain{
		Name: c.Name, DB: db, TxConfig: c.TxConfig, Vals: c.Vals, Signers: c.Signers,
		Accounts: c.Accounts, Headers: map[int64]*xibctmtypes.Header{}, AppHashAfter: map[int64][]byte{},
		LastTime: c.LastTime, Trace: c.Trace,
	}
	for k, v := range c.Headers {
		n.Headers[k] = v
	}
	for k, v := range c.AppHashAfter {
		n.AppHashAfter[k] = v
	}
	n.App = newApp(db, true)
	return n
}

// SortedAccountNames lists account names in order.
func (c *Chain) SortedAccountNames() []string {
	var out []string
	for n := range c.Accounts {
		out = append(out, n)
	}
	sort.Strings(out)
	return out
}

// InBlock reports whether a block is open.
func (c *Chain) InBlock() bool { return c.inBlock }

// RestartFromExport exports the application's whole state the way `teleport export` does and starts a fresh application
// from it with InitChain (a restart of the network from an exported genesis). The returned chain has committed nothing
// beyond the genesis commit; headers of the old chain are not carried over.
func (c *Chain) RestartFromExport(now time.Time) (n *Chain, err error) {
	if c.inBlock {
		panic("RestartFromExport: open block")
	}
	defer func() {
		if rec := recover(); rec != nil {
			n, err = nil, fmt.Errorf("panic: %v", rec)
		}
	}()
	exp, err := c.App.ExportAppStateAndValidators(false, nil)
	if err != nil {
		return nil, fmt.Errorf("export: %w", err)
	}
	db := dbm.NewMemDB()
	n = &Chain{
		Name: c.Name, DB: db, TxConfig: c.TxConfig, Vals: c.Vals, Signers: c.Signers,
		Accounts: c.Accounts, Headers: map[int64]*xibctmtypes.Header{}, AppHashAfter: map[int64][]byte{},
		LastTime: now,
	}
	n.App = newApp(db, true)
	n.App.InitChain(abci.RequestInitChain{
		ChainId:         "teleport_9000-1",
		Validators:      []abci.ValidatorUpdate{},
		ConsensusParams: exp.ConsensusParams,
		AppStateBytes:   exp.AppState,
		InitialHeight:   exp.Height,
		Time:            now,
	})
	n.App.Commit()
	return n, nil
}
