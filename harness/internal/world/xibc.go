package world

import (
	"bytes"
	"crypto/sha256"
	"encoding/hex"
	"fmt"
	"math/big"
	"sort"
	"strings"
	"time"

	abci "github.com/tendermint/tendermint/abci/types"

	sdk "github.com/cosmos/cosmos-sdk/types"

	"github.com/ethereum/go-ethereum/accounts/abi"
	"github.com/ethereum/go-ethereum/common"
	"github.com/ethereum/go-ethereum/crypto"

	erc20contracts "github.com/teleport-network/teleport/syscontracts/erc20"
	endpointcontract "github.com/teleport-network/teleport/syscontracts/xibc_endpoint"
	packetcontract "github.com/teleport-network/teleport/syscontracts/xibc_packet"
	aggregatetypes "github.com/teleport-network/teleport/x/aggregate/types"
	xibctmtypes "github.com/teleport-network/teleport/x/xibc/clients/light-clients/tendermint/types"
	clienttypes "github.com/teleport-network/teleport/x/xibc/core/client/types"
	commitmenttypes "github.com/teleport-network/teleport/x/xibc/core/commitment/types"
	"github.com/teleport-network/teleport/x/xibc/core/host"
	packettypes "github.com/teleport-network/teleport/x/xibc/core/packet/types"
)

// World is a set of chains sharing one clock.
type World struct {
	Chains map[string]*Chain
	Order  []string
	Now    time.Time
}

func NewWorld() *World { return &World{Chains: map[string]*Chain{}, Now: StartTime} }

func (w *World) Add(name string, opt Options) *Chain {
	c := NewChain(name, w.Now, opt)
	w.Chains[name] = c
	w.Order = append(w.Order, name)
	return c
}

func (w *World) Clone() *World {
	n := &World{Chains: map[string]*Chain{}, Order: append([]string{}, w.Order...), Now: w.Now}
	for k, c := range w.Chains {
		n.Chains[k] = c.Clone()
	}
	return n
}

// Tick advances the global clock by one block step and returns the new time.
func (w *World) Tick() time.Time { w.Now = w.Now.Add(BlockStep); return w.Now }

// Block runs one block on chain c at the next clock tick.
func (w *World) Block(c *Chain, txs ...[]byte) []TxResult { return c.Block(w.Tick(), txs...) }

// Do runs fn against the deliver context of a fresh block of c and commits.
func (w *World) Do(c *Chain, fn func(ctx sdk.Context)) {
	c.Begin(w.Tick())
	fn(c.Ctx())
	c.End()
}

// Trust parameters of the tendermint clients (the repository's defaults).
const (
	TrustingPeriod  = time.Hour * 24 * 7 * 2
	UnbondingPeriod = time.Hour * 24 * 7 * 3
	MaxClockDrift   = time.Second * 10
)

// ChainNameSetup sets the xibc chain name (keeper and packet contract).
func ChainNameSetup(c *Chain, ctx sdk.Context) {
	c.App.XIBCKeeper.ClientKeeper.SetChainName(ctx, c.Name)
	if _, err := c.App.XIBCKeeper.PacketKeeper.CallEVM(ctx, packetcontract.PacketContract.ABI, packettypes.ModuleAddress,
		packetcontract.PacketContractAddress, "setChainName", c.Name); err != nil {
		panic(err)
	}
}

// CreateTMClient creates on `on` a tendermint client named after `of` from of's last committed header.
func CreateTMClient(on *Chain, ctx sdk.Context, of *Chain) { CreateTMClientDelay(on, ctx, of, 0) }

// CreateTMClientDelay creates the tendermint client with a delay period (nanoseconds): proofs at a height are honoured
// only that long after the header of the height was processed.
func CreateTMClientDelay(on *Chain, ctx sdk.Context, of *Chain, delay uint64) {
	h := of.Headers[of.Height()]
	height := h.GetHeight().(clienttypes.Height)
	cs := xibctmtypes.NewClientState(of.Name, xibctmtypes.DefaultTrustLevel, TrustingPeriod, UnbondingPeriod, MaxClockDrift,
		height, commitmenttypes.GetSDKSpecs(), commitmenttypes.MerklePrefix{KeyPrefix: []byte("xibc")}, delay)
	must(on.App.XIBCKeeper.ClientKeeper.CreateClient(ctx, of.Name, cs, h.ConsensusState()))
}

// RegisterRelayers registers the named accounts as relayers on `on` for chain `forChain`
// (additively: existing registrations for other chains are kept).
func RegisterRelayers(on *Chain, ctx sdk.Context, forChain string, names ...string) {
	for _, n := range names {
		a := on.Accounts[n]
		chains, addrs := []string{}, []string{}
		if ir, ok := on.App.XIBCKeeper.ClientKeeper.GetRelayer(ctx, a.Acc.String()); ok {
			chains, addrs = ir.Chains, ir.Addresses
		}
		chains = append(chains, forChain)
		addrs = append(addrs, a.Acc.String())
		on.App.XIBCKeeper.ClientKeeper.RegisterRelayers(ctx, a.Acc.String(), chains, addrs)
	}
}

// RegisterRelayersAs registers the named accounts for chain forChain under the given counterparty address (additively).
func RegisterRelayersAs(on *Chain, ctx sdk.Context, forChain, addr string, names ...string) {
	for _, n := range names {
		a := on.Accounts[n]
		chains, addrs := []string{}, []string{}
		if ir, ok := on.App.XIBCKeeper.ClientKeeper.GetRelayer(ctx, a.Acc.String()); ok {
			chains, addrs = ir.Chains, ir.Addresses
		}
		on.App.XIBCKeeper.ClientKeeper.RegisterRelayers(ctx, a.Acc.String(), append(chains, forChain), append(addrs, addr))
	}
}

// DeployERC20From deploys the repository's ERC20MinterBurnerDecimals with `from` as deployer (keeper call).
func DeployERC20From(c *Chain, ctx sdk.Context, from common.Address, name string) common.Address {
	ctor, err := erc20contracts.ERC20MinterBurnerDecimalsContract.ABI.Pack("", name, name, uint8(18))
	must(err)
	data := append(append([]byte{}, erc20contracts.ERC20MinterBurnerDecimalsContract.Bin...), ctor...)
	nonce := c.App.EvmKeeper.GetNonce(ctx, from)
	addr := crypto.CreateAddress(from, nonce)
	res, err := c.App.AggregateKeeper.CallEVMWithData(ctx, from, nil, data)
	must(err)
	if res.Failed() {
		panic(res.VmError)
	}
	return addr
}

// KeeperCall performs a state-changing contract call from `from` through the aggregate keeper (setup only).
func KeeperCall(c *Chain, ctx sdk.Context, a abi.ABI, from, to common.Address, method string, args ...interface{}) []byte {
	res, err := c.App.AggregateKeeper.CallEVM(ctx, a, from, to, method, args...)
	must(err)
	return res.Ret
}

// View performs a read-only contract call on a throw-away context.
func (c *Chain) View(a abi.ABI, to common.Address, method string, args ...interface{}) ([]interface{}, error) {
	ctx := c.ReadCtx()
	res, err := c.App.AggregateKeeper.CallEVM(ctx, a, aggregatetypes.ModuleAddress, to, method, args...)
	if err != nil {
		return nil, err
	}
	return a.Unpack(method, res.Ret)
}

// ERC20Balance reads balanceOf.
func (c *Chain) ERC20Balance(token, who common.Address) *big.Int {
	out, err := c.View(erc20contracts.ERC20MinterBurnerDecimalsContract.ABI, token, "balanceOf", who)
	must(err)
	return out[0].(*big.Int)
}

// ERC20Supply reads totalSupply.
func (c *Chain) ERC20Supply(token common.Address) *big.Int {
	out, err := c.View(erc20contracts.ERC20MinterBurnerDecimalsContract.ABI, token, "totalSupply")
	must(err)
	return out[0].(*big.Int)
}

// OutTokens reads endpoint.outTokens(token, dst).
func (c *Chain) OutTokens(token common.Address, dst string) *big.Int {
	out, err := c.View(endpointcontract.EndpointContract.ABI, endpointcontract.EndpointContractAddress, "outTokens", token, dst)
	must(err)
	return out[0].(*big.Int)
}

// BindingAmount reads endpoint.bindings(token/oriChain).amount.
func (c *Chain) BindingAmount(token common.Address, oriChain string) *big.Int {
	out, err := c.View(endpointcontract.EndpointContract.ABI, endpointcontract.EndpointContractAddress, "bindings",
		strings.ToLower(token.String())+"/"+oriChain)
	must(err)
	return out[2].(*big.Int)
}

// AckStatus reads packet.getAckStatus(dst, seq).
func (c *Chain) AckStatus(dst string, seq uint64) uint8 {
	out, err := c.View(packetcontract.PacketContract.ABI, packetcontract.PacketContractAddress, "getAckStatus", dst, seq)
	must(err)
	return out[0].(uint8)
}

// ContractNextSeq reads packet.getNextSequenceSend(dst).
func (c *Chain) ContractNextSeq(dst string) uint64 {
	out, err := c.View(packetcontract.PacketContract.ABI, packetcontract.PacketContractAddress, "getNextSequenceSend", dst)
	must(err)
	return out[0].(uint64)
}

// PacketFee reads packet.packetFees(dst/seq).
func (c *Chain) PacketFee(dst string, seq uint64) (common.Address, *big.Int) {
	out, err := c.View(packetcontract.PacketContract.ABI, packetcontract.PacketContractAddress, "packetFees", []byte(fmt.Sprintf("%s/%d", dst, seq)))
	must(err)
	return out[0].(common.Address), out[1].(*big.Int)
}

// NativeBalance reads the bank balance of the bond denom.
func (c *Chain) NativeBalance(addr []byte) *big.Int {
	return c.App.BankKeeper.GetBalance(c.ReadCtx(), sdk.AccAddress(addr), sdk.DefaultBondDenom).Amount.BigInt()
}

// QueryProof returns the ICS-23 proof of key in the xibc store as seen by a client at `height`
// (store version height-1), together with the proof height.
func (c *Chain) QueryProof(key []byte, height int64) ([]byte, clienttypes.Height, []byte) {
	res := c.App.Query(abci.RequestQuery{Path: fmt.Sprintf("store/%s/key", host.StoreKey), Height: height - 1, Data: key, Prove: true})
	if res.ProofOps == nil {
		return nil, clienttypes.NewHeight(c.Revision(), uint64(height)), nil
	}
	mp, err := commitmenttypes.ConvertProofs(res.ProofOps)
	must(err)
	bz, err := c.App.AppCodec().Marshal(&mp)
	must(err)
	return bz, clienttypes.NewHeight(c.Revision(), uint64(res.Height)+1), res.Value
}

// StoreAt reads a raw xibc store value at a committed version.
func (c *Chain) StoreAt(key []byte, version int64) []byte {
	res := c.App.Query(abci.RequestQuery{Path: fmt.Sprintf("store/%s/key", host.StoreKey), Height: version, Data: key})
	return res.Value
}

// ClientLatest returns the latest height of on's client named `of`.
func (c *Chain) ClientLatest(of string) clienttypes.Height {
	cs, ok := c.App.XIBCKeeper.ClientKeeper.GetClientState(c.ReadCtx(), of)
	if !ok {
		return clienttypes.Height{}
	}
	return cs.GetLatestHeight().(clienttypes.Height)
}

// MsgUpdate builds the client update of on's client of `of` to of's committed block h (0 = latest).
func MsgUpdate(on, of *Chain, h int64, signer Account) *clienttypes.MsgUpdateClient {
	if h == 0 {
		h = of.Height()
	}
	hdr := of.UpdateHeader(h, on.ClientLatest(of.Name))
	msg, err := clienttypes.NewMsgUpdateClient(of.Name, hdr, signer.Acc)
	must(err)
	return msg
}

// SentPacket is a packet captured from a send.
type SentPacket struct {
	Packet packettypes.Packet
	Bytes  []byte // bytes emitted by the packet contract
}

func (p SentPacket) ID() string {
	return fmt.Sprintf("%s/%s/%d", p.Packet.SrcChain, p.Packet.DstChain, p.Packet.Sequence)
}

// PacketsFromResult extracts packets from PacketSent logs of a tx result.
func PacketsFromResult(r TxResult) []SentPacket {
	var out []SentPacket
	ev := packetcontract.PacketContract.ABI.Events["PacketSent"]
	for _, l := range r.EthLogs {
		if l.Address != packetcontract.PacketContractAddress || len(l.Topics) == 0 || l.Topics[0] != ev.ID {
			continue
		}
		vals, err := packetcontract.PacketContract.ABI.Unpack("PacketSent", l.Data)
		if err != nil {
			continue
		}
		bz := vals[0].([]byte)
		var p packettypes.Packet
		if err := p.ABIDecode(bz); err != nil {
			continue
		}
		out = append(out, SentPacket{Packet: p, Bytes: bz})
	}
	return out
}

// TypedEventAttr finds attribute `key` of typed events of the given proto name in a tx result.
func TypedEventAttr(r TxResult, evType, key string) []string {
	var out []string
	for _, e := range r.Events {
		if e.Type != evType {
			continue
		}
		for _, a := range e.Attributes {
			if string(a.Key) == key {
				out = append(out, string(a.Value))
			}
		}
	}
	return out
}

// CrossChainCallData packs endpoint.crossChainCall.
func CrossChainCallData(d packettypes.CrossChainData, fee packettypes.Fee) []byte {
	bz, err := endpointcontract.EndpointContract.ABI.Pack("crossChainCall", d, fee)
	must(err)
	return bz
}

// DumpStore returns all key/value pairs of a store of the committed state.
func (c *Chain) DumpStore(name string) map[string]string {
	out := map[string]string{}
	key := c.App.GetKey(name)
	if key == nil {
		panic("no store " + name)
	}
	st := c.ReadCtx().KVStore(key)
	it := st.Iterator(nil, nil)
	defer it.Close()
	for ; it.Valid(); it.Next() {
		out[string(it.Key())] = string(it.Value())
	}
	return out
}

// DumpStoreCtx dumps a store as seen by the given context (e.g. a throw-away branch with uncommitted writes).
func (c *Chain) DumpStoreCtx(ctx sdk.Context, name string) map[string]string {
	out := map[string]string{}
	st := ctx.KVStore(c.App.GetKey(name))
	it := st.Iterator(nil, nil)
	defer it.Close()
	for ; it.Valid(); it.Next() {
		out[string(it.Key())] = string(it.Value())
	}
	return out
}

// Digest hashes a set of stores.
func (c *Chain) Digest(names ...string) string {
	h := sha256.New()
	for _, n := range names {
		m := c.DumpStore(n)
		keys := make([]string, 0, len(m))
		for k := range m {
			keys = append(keys, k)
		}
		sort.Strings(keys)
		for _, k := range keys {
			fmt.Fprintf(h, "%s|%d|%s|%d|%s|", n, len(k), k, len(m[k]), m[k])
		}
	}
	return hex.EncodeToString(h.Sum(nil))[:16]
}

// DiffStores lists keys that differ between two dumps.
func DiffStores(a, b map[string]string) []string {
	var out []string
	for k, v := range a {
		if w, ok := b[k]; !ok {
			out = append(out, "-"+printable(k))
		} else if v != w {
			out = append(out, "~"+printable(k))
		}
	}
	for k := range b {
		if _, ok := a[k]; !ok {
			out = append(out, "+"+printable(k))
		}
	}
	sort.Strings(out)
	return out
}

func printable(k string) string {
	for _, r := range []byte(k) {
		if r < 32 || r > 126 {
			return hex.EncodeToString([]byte(k))
		}
	}
	return k
}

// XibcPacketKeys returns the xibc store entries under a prefix (commitments, receipts, acks, nextSequenceSend).
func (c *Chain) XibcPacketKeys(prefix string) map[string][]byte {
	out := map[string][]byte{}
	st := c.ReadCtx().KVStore(c.App.GetKey(host.StoreKey))
	it := sdk.KVStorePrefixIterator(st, []byte(prefix+"/"))
	defer it.Close()
	for ; it.Valid(); it.Next() {
		out[string(it.Key())] = append([]byte{}, it.Value()...)
	}
	return out
}

var _ = bytes.Equal

// DigestStrings hashes a list of strings.
func DigestStrings(ss []string) []byte {
	h := sha256.New()
	for _, s := range ss {
		fmt.Fprintf(h, "%d|%s|", len(s), s)
	}
	return h.Sum(nil)[:8]
}
