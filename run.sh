#!/bin/sh
# usage: run.sh <Cxx> <quick|thorough>   |   run.sh replay <file>
# Rebuilds the harness against /repo's current working tree (build tag verif) and runs one check.
export GOFLAGS=-mod=mod GOPROXY=off GOSUMDB=off GOTOOLCHAIN=local
ROOT=$(cd "$(dirname "$0")" && pwd)
mkdir -p "$ROOT/bin"
TMPBIN="$ROOT/bin/verifchk.$$"
# VERIF_REPO (default /repo) lets a background sweep run against a pristine snapshot of the repository
MODFLAG=""
if [ -n "$VERIF_REPO" ] && [ "$VERIF_REPO" != /repo ]; then
  sed "s#=> /repo\$#=> $VERIF_REPO#" "$ROOT/harness/go.mod" > "$ROOT/bin/alt.$$.mod"; cp "$ROOT/harness/go.sum" "$ROOT/bin/alt.$$.sum"
  MODFLAG="-modfile=$ROOT/bin/alt.$$.mod"; export VERIF_MODFLAG="$MODFLAG"
fi
( cd "$ROOT/harness" && go build $MODFLAG -tags verif -o "$TMPBIN" ./cmd/verifchk ) >"$ROOT/bin/build.$$.log" 2>&1 || {
  echo "HARNESS-ERROR: harness does not build against /repo's working tree"; cat "$ROOT/bin/build.$$.log"; rm -f "$ROOT/bin/build.$$.log" "$TMPBIN"; exit 2; }
rm -f "$ROOT/bin/build.$$.log"
[ -x "$ROOT/bin/maporder" ] || ( cd "$ROOT/tools/maporder" && go build -o "$ROOT/bin/maporder" . ) || { echo "HARNESS-ERROR: cannot build the maporder tool"; exit 2; }
trap 'rm -f "$TMPBIN" "$ROOT/bin/alt.$$.mod" "$ROOT/bin/alt.$$.sum"' EXIT
VERIF_ROOT="${VERIF_ROOT_OVERRIDE:-$ROOT}" "$TMPBIN" "$@"
