#!/bin/bash
# usage: seedtest.sh <seed-name> <worktree> <check ids...>
# Confirms a seeded change (demo fails with it, passes without, repo tests of touched packages pass),
# stores it under /verif/seeded/<name>/, then runs the given checks against /repo with the patch applied.
set -u
export GOFLAGS=-mod=mod GOPROXY=off GOSUMDB=off GOTOOLCHAIN=local
NAME=$1; WT=$2; shift 2
D=/verif/seeded/$NAME; mkdir -p $D
cp $WT/SEED/patch.diff $WT/SEED/meta.json $D/ 2>/dev/null
cp $WT/SEED/demo_test.go $D/demo_test.go.txt 2>/dev/null
cd $WT
# normalise the worktree to HEAD + the recorded patch (guards against foreign hunks left by shared-stash accidents)
git checkout -q -- . && git apply $WT/SEED/patch.diff || { echo "RECORDED PATCH DOES NOT APPLY TO HEAD"; exit 3; }
DEMO=$(git status --short | grep '^??' | grep '_test.go' | awk '{print $2}' | head -1)
PKG=./$(dirname $DEMO)
echo "demo file: $DEMO pkg: $PKG"
RUN=$(grep -o 'func Test[A-Za-z0-9_]*' $DEMO | sed 's/func //' | paste -sd'|')
echo "== demo WITH change"; go test -vet=off -count=1 -run "$RUN" $PKG > $D/demo_with.log 2>&1; W=$?; tail -3 $D/demo_with.log
# (git stash is shared by all worktrees of a repository: toggle the source change with its own patch instead)
git diff > $D/.wt.diff; git apply -R $D/.wt.diff
echo "== demo WITHOUT change"; go test -vet=off -count=1 -run "$RUN" $PKG > $D/demo_without.log 2>&1; WO=$?; tail -3 $D/demo_without.log
git apply $D/.wt.diff; rm -f $D/.wt.diff
echo "demo exit with=$W without=$WO"
cd /repo && git apply $D/patch.diff || { echo "PATCH DOES NOT APPLY"; exit 3; }
PKGS=$(git diff --name-only | xargs -n1 dirname | sort -u | sed 's|^|./|' | tr '\n' ' ')
echo "== repo tests of touched packages: $PKGS"; go test -vet=off -count=1 $PKGS 2>&1 | tail -5 | tee $D/repo_tests.log
cd /verif
# evidence and replays of runs against a seeded tree go to a scratch root, never into /verif/evidence
SR=/tmp/seedroot; mkdir -p $SR/evidence $SR/replays; cp /verif/known_findings.json $SR/
RES=""
for c in "$@"; do
  echo "== check $c quick"; VERIF_ROOT_OVERRIDE=$SR ./run.sh $c quick > $D/check_$c.log 2>&1; E=$?; grep -E "VIOLATION|HARNESS-ERROR|violation signature" $D/check_$c.log | head -5; echo "exit=$E"; RES="$RES $c:$E"
done
git -C /repo checkout -- . ; git -C /repo status --short
echo "RESULT $NAME demo_with=$W demo_without=$WO checks:$RES" | tee $D/result.txt
