#!/bin/sh
# Pre-builds the harness (and warms the Go build cache) offline.
export GOFLAGS=-mod=mod GOPROXY=off GOSUMDB=off GOTOOLCHAIN=local
ROOT=$(cd "$(dirname "$0")" && pwd)
mkdir -p "$ROOT/bin" "$ROOT/evidence"
cd "$ROOT/harness" && go build -tags verif -o "$ROOT/bin/verifchk" ./cmd/verifchk
cd "$ROOT/tools/maporder" && go build -o "$ROOT/bin/maporder" .
