// maporder rewrites every `range` over a map in the given packages of /repo into
// iteration over the key slice ordered by a policy chosen at run time
// (VERIF_MAPORDER = ascending | descending | rotated), and emits a `go build
// -overlay` file. /repo itself is not touched. Used by the C14 determinism check to
// make map iteration order an explorer-owned choice instead of a runtime coin.
package main

import (
	"bytes"
	"encoding/json"
	"fmt"
	"go/ast"
	"go/format"
	"go/token"
	"go/types"
	"os"
	"path/filepath"
	"sort"
	"strings"

	"golang.org/x/tools/go/packages"
)

func main() {
	if len(os.Args) < 4 {
		fmt.Println("usage: maporder <repo dir> <out dir> <pattern>...")
		os.Exit(2)
	}
	repo, out := os.Args[1], os.Args[2]
	cfg := &packages.Config{
		Mode:       packages.NeedName | packages.NeedFiles | packages.NeedCompiledGoFiles | packages.NeedSyntax | packages.NeedTypes | packages.NeedTypesInfo | packages.NeedImports,
		Dir:        repo,
		BuildFlags: []string{"-tags=verif"},
	}
	pkgs, err := packages.Load(cfg, os.Args[3:]...)
	if err != nil {
		fmt.Println("load:", err)
		os.Exit(2)
	}
	overlay := map[string]string{}
	type site struct{ Pos, Kind string }
	var sites, skipped, clockSites []site
	os.MkdirAll(out, 0o755)
	n := 0
	for _, pkg := range pkgs {
		if len(pkg.Errors) > 0 {
			fmt.Println("package errors in", pkg.PkgPath, pkg.Errors)
			os.Exit(2)
		}
		helpers := map[string]int{}   // "K|V" type strings -> helper index
		var helperSrc []string
		imports := map[string]string{} // package path -> alias
		qual := func(p *types.Package) string {
			if p == pkg.Types {
				return ""
			}
			if a, ok := imports[p.Path()]; ok {
				return a
			}
			a := fmt.Sprintf("verifpkg%d", len(imports))
			imports[p.Path()] = a
			return a
		}
		needClock := false
		for i, file := range pkg.Syntax {
			fname := pkg.CompiledGoFiles[i]
			if strings.HasSuffix(fname, "_test.go") || strings.HasSuffix(fname, ".pb.go") || strings.HasSuffix(fname, ".pb.gw.go") || !strings.HasPrefix(fname, repo) {
				continue
			}
			changed := false
			timeAlias := ""
			ast.Inspect(file, func(node ast.Node) bool {
				// wall clock: time.Now() -> verifNow(), time.Since(x) -> verifNow().Sub(x)
				if call, ok := node.(*ast.CallExpr); ok {
					if sel, ok := call.Fun.(*ast.SelectorExpr); ok {
						if fn, ok := pkg.TypesInfo.Uses[sel.Sel].(*types.Func); ok && fn.Pkg() != nil && fn.Pkg().Path() == "time" {
							pos := pkg.Fset.Position(call.Pos())
							rel, _ := filepath.Rel(repo, pos.Filename)
							if id, ok := sel.X.(*ast.Ident); ok && (fn.Name() == "Now" || fn.Name() == "Since") {
								timeAlias = id.Name
							}
							switch {
							case fn.Name() == "Now" && len(call.Args) == 0:
								call.Fun = ast.NewIdent("verifNow")
								clockSites = append(clockSites, site{fmt.Sprintf("%s:%d", rel, pos.Line), "time.Now"})
								changed, needClock = true, true
							case fn.Name() == "Since" && len(call.Args) == 1:
								call.Fun = &ast.SelectorExpr{X: &ast.CallExpr{Fun: ast.NewIdent("verifNow")}, Sel: ast.NewIdent("Sub")}
								clockSites = append(clockSites, site{fmt.Sprintf("%s:%d", rel, pos.Line), "time.Since"})
								changed, needClock = true, true
							}
						}
					}
					return true
				}
				rs, ok := node.(*ast.RangeStmt)
				if !ok {
					return true
				}
				t := pkg.TypesInfo.TypeOf(rs.X)
				if t == nil {
					return true
				}
				mt, ok := t.Underlying().(*types.Map)
				if !ok {
					return true
				}
				pos := pkg.Fset.Position(rs.Pos())
				rel, _ := filepath.Rel(repo, pos.Filename)
				where := fmt.Sprintf("%s:%d", rel, pos.Line)
				// only side-effect free map expressions are rewritten (the expression is evaluated again for the value)
				if !pure(rs.X) {
					skipped = append(skipped, site{where, "map expression with calls: not controlled"})
					return true
				}
				ks, vs := types.TypeString(mt.Key(), qual), types.TypeString(mt.Elem(), qual)
				id := ks + "|" + vs
				idx, ok := helpers[id]
				if !ok {
					idx = len(helpers)
					helpers[id] = idx
					helperSrc = append(helperSrc, fmt.Sprintf(helperTmpl, idx, ks, vs, ks, ks))
				}
				keyVar := ast.NewIdent(fmt.Sprintf("verifK%d", n))
				n++
				var pre []ast.Stmt
				tok := rs.Tok
				if tok == token.ILLEGAL {
					tok = token.DEFINE
				}
				if id, ok := rs.Key.(*ast.Ident); rs.Key != nil && !(ok && id.Name == "_") {
					pre = append(pre, &ast.AssignStmt{Lhs: []ast.Expr{rs.Key}, Tok: tok, Rhs: []ast.Expr{keyVar}})
				}
				if id, ok := rs.Value.(*ast.Ident); rs.Value != nil && !(ok && id.Name == "_") {
					pre = append(pre, &ast.AssignStmt{Lhs: []ast.Expr{rs.Value}, Tok: tok, Rhs: []ast.Expr{&ast.IndexExpr{X: rs.X, Index: keyVar}}})
				}
				call := &ast.CallExpr{Fun: ast.NewIdent(fmt.Sprintf("verifMapKeys%d", idx)), Args: []ast.Expr{rs.X}}
				rs.Key, rs.Value, rs.Tok, rs.X = ast.NewIdent("_"), keyVar, token.DEFINE, call
				rs.Body.List = append(pre, rs.Body.List...)
				sites = append(sites, site{where, "map[" + ks + "]" + vs})
				changed = true
				return true
			})
			if changed {
				var buf bytes.Buffer
				if err := format.Node(&buf, pkg.Fset, file); err != nil {
					fmt.Println("format:", err)
					os.Exit(2)
				}
				if timeAlias != "" {
					fmt.Fprintf(&buf, "\nvar _ %s.Duration // keeps the import used after the clock rewrite\n", timeAlias)
				}
				dst := filepath.Join(out, fmt.Sprintf("f%d_%s", len(overlay), filepath.Base(fname)))
				os.WriteFile(dst, buf.Bytes(), 0o644)
				overlay[fname] = dst
			}
		}
		if len(helpers) > 0 || needClock {
			var b strings.Builder
			fmt.Fprintf(&b, "package %s\n\nimport (\n\t\"fmt\"\n\t\"os\"\n\t\"sort\"\n\tveriftime \"time\"\n", pkg.Name)
			var paths []string
			for p := range imports {
				paths = append(paths, p)
			}
			sort.Strings(paths)
			for _, p := range paths {
				fmt.Fprintf(&b, "\t%s %q\n", imports[p], p)
			}
			b.WriteString(")\n\nvar _ = fmt.Sprint\nvar _ = os.Getenv\nvar _ = sort.Strings\n")
			b.WriteString(clockTmpl)
			for _, h := range helperSrc {
				b.WriteString(h)
			}
			dir := filepath.Dir(pkg.CompiledGoFiles[0])
			dst := filepath.Join(out, fmt.Sprintf("h%d_zz_verif_maporder.go", len(overlay)))
			os.WriteFile(dst, []byte(b.String()), 0o644)
			overlay[filepath.Join(dir, "zz_verif_maporder.go")] = dst
		}
	}
	bz, _ := json.MarshalIndent(map[string]interface{}{"Replace": overlay}, "", " ")
	os.WriteFile(filepath.Join(out, "overlay.json"), bz, 0o644)
	rep, _ := json.MarshalIndent(map[string]interface{}{"rewritten": sites, "not_controlled": skipped, "clock": clockSites}, "", " ")
	os.WriteFile(filepath.Join(out, "sites.json"), rep, 0o644)
	fmt.Printf("maporder: %d map ranges rewritten, %d not controlled, %d wall-clock reads rewritten, %d files in overlay\n", len(sites), len(skipped), len(clockSites), len(overlay))
}

func pure(e ast.Expr) bool {
	switch x := e.(type) {
	case *ast.Ident:
		return true
	case *ast.SelectorExpr:
		return pure(x.X)
	case *ast.ParenExpr:
		return pure(x.X)
	case *ast.StarExpr:
		return pure(x.X)
	case *ast.IndexExpr:
		return pure(x.X) && pure(x.Index)
	case *ast.BasicLit:
		return true
	}
	return false
}

const clockTmpl = `
// verifNow is the wall clock as the explorer chooses it (VERIF_CLOCK: unset = real, past = 1970, future = +30 years).
func verifNow() veriftime.Time {
	switch os.Getenv("VERIF_CLOCK") {
	case "past":
		return veriftime.Unix(1000000, 0)
	case "future":
		return veriftime.Now().AddDate(30, 0, 0)
	}
	return veriftime.Now()
}
`

const helperTmpl = `
func verifMapKeys%d(m map[%s]%s) []%s {
	keys := make([]%s, 0, len(m))
	for k := range m {
		keys = append(keys, k)
	}
	sort.Slice(keys, func(i, j int) bool { return fmt.Sprint(keys[i]) < fmt.Sprint(keys[j]) })
	switch os.Getenv("VERIF_MAPORDER") {
	case "descending":
		for i, j := 0, len(keys)-1; i < j; i, j = i+1, j-1 {
			keys[i], keys[j] = keys[j], keys[i]
		}
	case "rotated":
		if len(keys) > 1 {
			keys = append(keys[1:], keys[0])
		}
	}
	return keys
}
`
